package main

import (
	"fmt"
	"go/constant"
	"go/token"
	"go/types"
	"sort"
	"strings"

	"golang.org/x/tools/go/ssa"
)

// ---------------------------------------------------------------------------
// facts: comparisons known to hold at a block, also through closure creation

// factsWithParents lists the comparisons that hold whenever block b of a
// (possibly nested) closure runs: the edges dominating b, plus - when the
// enclosing function is a closure created at exactly one MakeClosure site -
// the facts at that site, recursively.  Facts inherited from a parent speak
// about values as they were when the closure was made.
func factsWithParents(b *ssa.BasicBlock) []Cmp {
	out := factsAt(b)
	fn := b.Parent()
	for depth := 0; fn != nil && fn.Parent() != nil && depth < 6; depth++ {
		mcs := makeClosuresOf(fn)
		if len(mcs) != 1 {
			break
		}
		out = append(out, factsAt(mcs[0].Block())...)
		fn = fn.Parent()
	}
	return out
}

// stripConv removes value-preserving wrappers.
func stripConv(v ssa.Value) ssa.Value {
	for i := 0; i < 8; i++ {
		switch x := v.(type) {
		case *ssa.ChangeType:
			v = x.X
		case *ssa.Convert:
			if sameBasicSize(x.X.Type(), x.Type()) {
				v = x.X
			} else {
				return v
			}
		default:
			return v
		}
	}
	return v
}

// isLoadOf reports whether v is a load of struct field f (any base).
func isLoadOf(v ssa.Value, f *types.Var) bool {
	return f != nil && loadedField(unspill(v)) == f && !loadsFromGlobal(unspill(v))
}

// loadsFromGlobal: v is a load whose address chain is rooted at a package
// variable (DefaultTunnelConfig.UseTCP is not conn.config.UseTCP).
func loadsFromGlobal(v ssa.Value) bool {
	for i := 0; i < 8; i++ {
		switch x := v.(type) {
		case *ssa.UnOp:
			v = x.X
		case *ssa.FieldAddr:
			v = x.X
		case *ssa.IndexAddr:
			v = x.X
		case *ssa.ChangeType:
			v = x.X
		case *ssa.Convert:
			v = x.X
		case *ssa.Field:
			v = x.X
		case *ssa.Global:
			return true
		default:
			return false
		}
	}
	return false
}

// resolveFree follows a free variable to the value bound at its single
// MakeClosure site.
func resolveFree(v ssa.Value) ssa.Value {
	for i := 0; i < 6; i++ {
		if prm, isP := v.(*ssa.Parameter); isP {
			// parameter of a function literal with a single call site (go/defer/call of the literal itself)
			if a := litParamBinding(prm); a != nil {
				v = a
				continue
			}
			return v
		}
		fv, ok := v.(*ssa.FreeVar)
		if !ok {
			return v
		}
		b := closureBinding(fv)
		if b == nil {
			return v
		}
		v = b
	}
	return v
}

// cmpIsFieldEq: the fact says load(f1) == load(f2) (either order).
func cmpIsFieldEq(c Cmp, f1, f2 *types.Var) bool {
	if c.Op != token.EQL {
		return false
	}
	return (isLoadOf(c.X, f1) && isLoadOf(c.Y, f2)) || (isLoadOf(c.X, f2) && isLoadOf(c.Y, f1))
}

// cmpIsFieldConst: the fact says load(f) op k.
func cmpIsFieldConst(c Cmp, f *types.Var, op token.Token, k int64) bool {
	if isLoadOf(c.X, f) {
		if v, ok := constInt(c.Y); ok && v == k && c.Op == op {
			return true
		}
	}
	if isLoadOf(c.Y, f) {
		if v, ok := constInt(c.X); ok && v == k && swapOp(c.Op) == op {
			return true
		}
	}
	return false
}

// cmpIsBool: the fact says v is true/false, with pred deciding whether v is
// the interesting boolean.
func cmpIsBool(c Cmp, want bool, pred func(ssa.Value) bool) bool {
	k, ok := c.Y.(*ssa.Const)
	if !ok || k.Value == nil || k.Value.Kind() != constant.Bool {
		return false
	}
	val := constant.BoolVal(k.Value)
	switch c.Op {
	case token.EQL:
	case token.NEQ:
		val = !val
	default:
		return false
	}
	return val == want && pred(c.X)
}

func anyFact(fs []Cmp, pred func(Cmp) bool) bool {
	for _, f := range fs {
		if pred(f) {
			return true
		}
	}
	return false
}

// mayBeNil reports whether an interface/pointer value can be nil at block b.
func (p *Program) mayBeNil(v ssa.Value, b *ssa.BasicBlock) bool {
	if isNilConst(v) {
		return true
	}
	if p.isNonNilError(v) {
		return false
	}
	sameLoad := func(x ssa.Value) bool {
		// two loads of one local variable with no write in between are one value
		ux, ok1 := x.(*ssa.UnOp)
		uv, ok2 := v.(*ssa.UnOp)
		if !ok1 || !ok2 || ux.Op != token.MUL || uv.Op != token.MUL {
			return false
		}
		cx, ok3 := ux.X.(*ssa.Alloc)
		cy, ok4 := uv.X.(*ssa.Alloc)
		return ok3 && ok4 && cx == cy && (noWriteBetween(cx, ux, uv) || noWriteBetween(cx, uv, ux))
	}
	factNonNil := func() bool {
		cv := canonLoad(v)
		for _, f := range factsAt(b) {
			if f.Op != token.NEQ {
				continue
			}
			if (isNilConst(f.Y) && (f.X == v || canonLoad(f.X) == cv || sameLoad(f.X))) || (isNilConst(f.X) && (f.Y == v || canonLoad(f.Y) == cv || sameLoad(f.Y))) {
				return true
			}
		}
		return false
	}
	switch x := v.(type) {
	case *ssa.Alloc, *ssa.MakeClosure, *ssa.MakeChan, *ssa.MakeMap, *ssa.MakeSlice, *ssa.Function:
		return false
	case *ssa.Phi:
		// the merged value itself was tested on the way to b
		if factNonNil() {
			return false
		}
		if r := resolvePhiAt(x, b); r != ssa.Value(x) {
			return p.mayBeNil(r, b)
		}
		for i, e := range x.Edges {
			if p.mayBeNil(e, x.Block().Preds[i]) {
				// an edge value is judged with the facts at the end of its predecessor
				return true
			}
		}
		return false
	case *ssa.Call:
		// a status code converted to error: MakeInterface handled above
	}
	if factNonNil() {
		return false
	}
	// facts at the block's own terminating edge are not included; callers
	// pass the block in which the value is used.
	return true
}

// returnMayBeNil reports whether result i of r may be nil.
func (p *Program) returnMayBeNil(r *ssa.Return, i int) bool {
	for _, v := range resultValues(r, i) {
		if p.mayBeNil(v, r.Block()) {
			return true
		}
	}
	return false
}

// ---------------------------------------------------------------------------
// select states

type selAt struct {
	Sel   *ssa.Select
	State int
}

// selectStatesAt lists the select cases whose body dominates block b.
func selectStatesAt(b *ssa.BasicBlock) []selAt {
	var out []selAt
	for _, f := range factsAt(b) {
		if f.Op != token.EQL {
			continue
		}
		k, ok := constInt(f.Y)
		if !ok {
			continue
		}
		ex, ok := f.X.(*ssa.Extract)
		if !ok || ex.Index != 0 {
			continue
		}
		if s, ok := ex.Tuple.(*ssa.Select); ok && int(k) < len(s.States) {
			out = append(out, selAt{s, int(k)})
		}
	}
	return out
}

// inSelectRecvOn reports whether b is dominated by the case of a select that
// receives from a channel loaded from field f; it returns that select.
func inSelectRecvOn(b *ssa.BasicBlock, f *types.Var) (*ssa.Select, int, bool) {
	for _, s := range selectStatesAt(b) {
		st := s.Sel.States[s.State]
		if st.Dir == types.RecvOnly && chanIs(st.Chan, f) {
			return s.Sel, s.State, true
		}
	}
	return nil, 0, false
}

// selectRecvOK returns the comma-ok value of a select (Extract #1).
func selectRecvOK(s *ssa.Select) ssa.Value {
	for _, u := range usesOf(s) {
		if e, ok := u.(*ssa.Extract); ok && e.Index == 1 {
			return e
		}
	}
	return nil
}

// selectRecvValue returns the Extract holding the value received by state k.
func selectRecvValue(s *ssa.Select, k int) ssa.Value {
	idx := 2
	for i := 0; i < k; i++ {
		if s.States[i].Dir == types.RecvOnly {
			idx++
		}
	}
	if s.States[k].Dir != types.RecvOnly {
		return nil
	}
	for _, u := range usesOf(s) {
		if e, ok := u.(*ssa.Extract); ok && e.Index == idx {
			return e
		}
	}
	return nil
}

// ---------------------------------------------------------------------------
// timers

type timerSrc struct {
	Kind  string     // "after" | "ticker"
	Call  *ssa.Call  // the time.After / time.NewTicker call
	Field *types.Var // duration field the argument was loaded from (nil if not a field load)
	Arg   ssa.Value
}

// timerOf decodes a channel value that comes from time.After(d) or from the C
// field of a time.NewTicker(d).
func timerOf(ch ssa.Value) *timerSrc {
	ch = resolveFree(stripConv(ch))
	if c, ok := ch.(*ssa.Call); ok && funcIs(calleeObj(c), "time", "", "After") {
		a := c.Common().Args[0]
		return &timerSrc{Kind: "after", Call: c, Field: loadedField(unspill(a)), Arg: a}
	}
	if u, ok := ch.(*ssa.UnOp); ok && u.Op == token.MUL {
		if fa, ok := u.X.(*ssa.FieldAddr); ok {
			if f := structField(fa.X.Type(), fa.Field); f != nil && f.Name() == "C" {
				// the timer may live in a local that a closure captured: the value assigned once
				tv := resolveFree(stripConv(fa.X))
				if ld, isLd := tv.(*ssa.UnOp); isLd && ld.Op == token.MUL {
					if cell := cellOf(ld.X); cell != nil && !cellEscapes(cell) {
						if sts := cellStores(cell); len(sts) == 1 {
							tv = sts[0].Val
						}
					}
				}
				if c, ok := tv.(*ssa.Call); ok && tv != fa.X {
					if funcIs(calleeObj(c), "time", "", "NewTicker") {
						a := c.Common().Args[0]
						return &timerSrc{Kind: "ticker", Call: c, Field: loadedField(unspill(a)), Arg: a}
					}
					if funcIs(calleeObj(c), "time", "", "NewTimer") {
						a := c.Common().Args[0]
						return &timerSrc{Kind: "after", Call: c, Field: loadedField(unspill(a)), Arg: a}
					}
				}
				if c, ok := fa.X.(*ssa.Call); ok && funcIs(calleeObj(c), "time", "", "NewTicker") {
					a := c.Common().Args[0]
					return &timerSrc{Kind: "ticker", Call: c, Field: loadedField(unspill(a)), Arg: a}
				}
				// time.NewTimer(d).C fires once after d, like time.After(d)
				if c, ok := fa.X.(*ssa.Call); ok && funcIs(calleeObj(c), "time", "", "NewTimer") {
					a := c.Common().Args[0]
					return &timerSrc{Kind: "after", Call: c, Field: loadedField(unspill(a)), Arg: a}
				}
			}
		}
	}
	return nil
}

// ---------------------------------------------------------------------------
// loops

type loopInfo struct {
	Header  *ssa.BasicBlock
	Latches []*ssa.BasicBlock
	Body    map[*ssa.BasicBlock]bool
}

func loopsOf(fn *ssa.Function) []*loopInfo {
	var out []*loopInfo
	for h, l := range loopHeaders(fn) {
		out = append(out, &loopInfo{Header: h, Latches: l, Body: loopBody(h, l)})
	}
	sort.Slice(out, func(i, j int) bool { return out[i].Header.Index < out[j].Header.Index })
	return out
}

// innermostLoop returns the smallest loop containing b.
func innermostLoop(b *ssa.BasicBlock) *loopInfo {
	var best *loopInfo
	for _, l := range loopsOf(b.Parent()) {
		if l.Body[b] && (best == nil || len(l.Body) < len(best.Body)) {
			best = l
		}
	}
	return best
}

// ---------------------------------------------------------------------------
// blocking operations

// blockingDesc classifies an instruction that can block indefinitely.
func blockingDesc(in ssa.Instruction) string {
	switch x := in.(type) {
	case *ssa.Send:
		return "channel send"
	case *ssa.UnOp:
		if x.Op == token.ARROW {
			return "channel receive"
		}
	case *ssa.Select:
		if x.Blocking {
			return "select"
		}
	case *ssa.Call:
		o := calleeObj(x)
		if o == nil || o.Pkg() == nil {
			return ""
		}
		switch o.Pkg().Path() + "." + recvName(o) + o.Name() {
		case "time.Sleep", "sync.Mutex.Lock", "sync.RWMutex.Lock", "sync.RWMutex.RLock", "sync.WaitGroup.Wait", "sync.Cond.Wait":
			return o.Pkg().Name() + "." + recvName(o) + o.Name()
		}
	}
	return ""
}

func recvName(o *types.Func) string {
	sig := o.Type().(*types.Signature)
	if sig.Recv() == nil {
		return ""
	}
	if n := namedOf(sig.Recv().Type()); n != nil {
		return n.Obj().Name() + "."
	}
	return ""
}

// ---------------------------------------------------------------------------
// path counting towards one target block

// pathCountTo counts match instructions over all acyclic paths (back edges
// cut) from the start of `from` to the end of `to`, restricted to blocks that
// can reach `to`.  ok is false when `to` is not reachable.
func pathCountTo(from, to *ssa.BasicBlock, match func(ssa.Instruction) bool) (min, max int, ok bool) {
	if hasThreadableBranch(from.Parent()) {
		if mn, mx, okE := pathEnum(from, to, match, nil); okE {
			reach := reachableFrom(from, func(a, b *ssa.BasicBlock) bool { return isBackEdge(a, b) })
			return mn, mx, reach[to]
		}
	}
	// blocks that can reach `to`
	can := map[*ssa.BasicBlock]bool{to: true}
	work := []*ssa.BasicBlock{to}
	for len(work) > 0 {
		x := work[len(work)-1]
		work = work[:len(work)-1]
		for _, p := range x.Preds {
			if isBackEdge(p, x) {
				continue
			}
			if !can[p] {
				can[p] = true
				work = append(work, p)
			}
		}
	}
	if !can[from] {
		return 0, 0, false
	}
	type res struct{ min, max int }
	memo := map[*ssa.BasicBlock]res{}
	var walk func(b *ssa.BasicBlock) res
	walk = func(b *ssa.BasicBlock) res {
		if r, ok := memo[b]; ok {
			return r
		}
		n := 0
		for _, in := range b.Instrs {
			if match(in) {
				n++
			}
		}
		if b == to {
			memo[b] = res{n, n}
			return memo[b]
		}
		r := res{-1, -1}
		for _, s := range b.Succs {
			if isBackEdge(b, s) || !can[s] {
				continue
			}
			sr := walk(s)
			if r.min < 0 || sr.min < r.min {
				r.min = sr.min
			}
			if sr.max > r.max {
				r.max = sr.max
			}
		}
		if r.min < 0 {
			r = res{0, 0}
		}
		r.min += n
		r.max += n
		memo[b] = r
		return r
	}
	r := walk(from)
	return r.min, r.max, true
}

// ---------------------------------------------------------------------------
// locksets with entry sets from callers

type lockCtx struct {
	p     *Program
	cg    *CG
	infos map[*ssa.Function]*LockInfo
	entry map[*ssa.Function]map[string]bool
	busy  map[*ssa.Function]bool
}

func newLockCtx(p *Program, cg *CG) *lockCtx {
	return &lockCtx{p: p, cg: cg, infos: map[*ssa.Function]*LockInfo{}, entry: map[*ssa.Function]map[string]bool{}, busy: map[*ssa.Function]bool{}}
}

// entrySet: locks held on entry of fn on every call from inside the module
// (intersection over synchronous call sites; goroutine starts and functions
// without callers start with nothing).
func (lc *lockCtx) entrySet(fn *ssa.Function) map[string]bool {
	if s, ok := lc.entry[fn]; ok {
		return s
	}
	if lc.busy[fn] {
		return map[string]bool{}
	}
	lc.busy[fn] = true
	defer delete(lc.busy, fn)
	var s map[string]bool
	ins := lc.cg.In[fn]
	exported := fn.Object() != nil && fn.Object().Exported()
	if len(ins) == 0 || exported {
		s = map[string]bool{}
	}
	for _, e := range ins {
		if s != nil && len(s) == 0 {
			break
		}
		var at map[string]bool
		if e.Async() || e.Kind == "defer" || e.Kind == "once" {
			at = map[string]bool{}
			if e.Kind == "defer" || e.Kind == "once" {
				// runs synchronously but at a point the lockset analysis does not model: assume nothing
			}
		} else {
			at = lc.info(e.Caller).before[e.Site]
		}
		if s == nil {
			s = copySet(at)
		} else {
			for k := range s {
				if !at[k] {
					delete(s, k)
				}
			}
		}
	}
	if s == nil {
		s = map[string]bool{}
	}
	// "defer:" markers never cross a call
	for k := range s {
		if strings.HasPrefix(k, "defer:") {
			delete(s, k)
		}
	}
	lc.entry[fn] = s
	return s
}

func (lc *lockCtx) info(fn *ssa.Function) *LockInfo {
	if li, ok := lc.infos[fn]; ok {
		return li
	}
	li := computeLocks(fn, lc.entrySet(fn))
	lc.infos[fn] = li
	return li
}

// Held: the mutex stored in field key (e.g. "Tunnel.seqMu") is certainly held
// just before instruction in.
func (lc *lockCtx) Held(in ssa.Instruction, key string) bool {
	return lc.info(in.Parent()).Held(in, key)
}

func (lc *lockCtx) HeldSet(in ssa.Instruction) string {
	var out []string
	for _, k := range lc.info(in.Parent()).HeldSet(in) {
		if !strings.HasPrefix(k, "defer:") {
			out = append(out, k)
		}
	}
	if len(out) == 0 {
		return "{}"
	}
	return "{" + strings.Join(out, ",") + "}"
}

// ---------------------------------------------------------------------------
// stores into a fresh composite (the &T{...} shape)

// fieldStores maps field -> values stored into alloc's fields (direct
// FieldAddr stores only).  other is true if the allocation's address is used
// in a way not understood (so unseen writes are possible before `limit`).
func fieldStores(alloc ssa.Value) (m map[*types.Var][]*ssa.Store) {
	m = map[*types.Var][]*ssa.Store{}
	for _, u := range usesOf(alloc) {
		fa, ok := u.(*ssa.FieldAddr)
		if !ok {
			continue
		}
		f := structField(fa.X.Type(), fa.Field)
		for _, su := range usesOf(fa) {
			if st, ok := su.(*ssa.Store); ok && st.Addr == fa {
				m[f] = append(m[f], st)
			}
		}
	}
	return m
}

func fieldByName(t types.Type, name string) *types.Var {
	st, ok := deref(t).Underlying().(*types.Struct)
	if !ok {
		return nil
	}
	for i := 0; i < st.NumFields(); i++ {
		if st.Field(i).Name() == name {
			return st.Field(i)
		}
	}
	return nil
}

// allocOf strips to the Alloc behind a value (through MakeInterface).
func allocOf(v ssa.Value) *ssa.Alloc {
	for i := 0; i < 4; i++ {
		switch x := v.(type) {
		case *ssa.Alloc:
			return x
		case *ssa.MakeInterface:
			v = x.X
		case *ssa.ChangeInterface:
			v = x.X
		default:
			return nil
		}
	}
	return nil
}

// describe renders a value for messages.
func describe(v ssa.Value) string {
	if v == nil {
		return "<nil>"
	}
	if c, ok := v.(*ssa.Const); ok {
		return c.String()
	}
	if f := loadedField(unspill(v)); f != nil {
		return "load " + fieldKey(f)
	}
	if pr, ok := v.(*ssa.Parameter); ok {
		return "parameter " + pr.Name()
	}
	if fv, ok := v.(*ssa.FreeVar); ok {
		return "captured " + fv.Name()
	}
	return fmt.Sprintf("%s (%T)", v.Name(), v)
}

// instrsOf iterates all instructions of fn.
func instrsOf(fn *ssa.Function, f func(ssa.Instruction)) {
	for _, b := range fn.Blocks {
		for _, in := range b.Instrs {
			f(in)
		}
	}
}

// fieldAddrEscapes: some address of field f is used other than by a direct
// load or as the target of a store, anywhere in the module.
func (p *Program) fieldAddrEscapes(f *types.Var) (bool, string) {
	for _, fn := range p.SrcFuncs() {
		for _, b := range fn.Blocks {
			for _, in := range b.Instrs {
				fa, ok := in.(*ssa.FieldAddr)
				if !ok || structField(fa.X.Type(), fa.Field) != f {
					continue
				}
				for _, u := range usesOf(fa) {
					switch x := u.(type) {
					case *ssa.UnOp:
						if x.Op == token.MUL {
							continue
						}
					case *ssa.Store:
						if x.Addr == fa {
							continue
						}
					case *ssa.DebugRef:
						continue
					}
					return true, p.InstrPos(u)
				}
			}
		}
	}
	return false, ""
}

// ---------------------------------------------------------------------------
// type-switch facts, call-result facts, path enumeration

// assertOK: the fact says "X.(T) succeeded"; returns the asserted type.
func assertOK(c Cmp) (types.Type, *ssa.TypeAssert, bool) {
	var ta *ssa.TypeAssert
	ok := cmpIsBool(c, true, func(v ssa.Value) bool {
		e, isE := v.(*ssa.Extract)
		if !isE || e.Index != 1 {
			return false
		}
		t, isT := e.Tuple.(*ssa.TypeAssert)
		if isT {
			ta = t
		}
		return isT
	})
	if !ok || ta == nil {
		return nil, nil, false
	}
	return ta.AssertedType, ta, true
}

// factAssertPtr: some dominating fact says a value was asserted to *pkg.name.
func factAssertPtr(fs []Cmp, pkgPath, name string) bool {
	return anyFact(fs, func(f Cmp) bool {
		t, _, ok := assertOK(f)
		return ok && isPtrToNamed(t, pkgPath, name)
	})
}

// callResultNilFact: the fact says (result of a call to one of fns) ==/!= nil.
func callResultNilFact(c Cmp, wantNil bool, isFn func(*ssa.Function) bool) bool {
	op := token.EQL
	if !wantNil {
		op = token.NEQ
	}
	if c.Op != op {
		return false
	}
	v := c.X
	if isNilConst(c.X) {
		v = c.Y
	} else if !isNilConst(c.Y) {
		return false
	}
	if e, ok := v.(*ssa.Extract); ok {
		v = e.Tuple
	}
	call, ok := v.(*ssa.Call)
	if !ok {
		return false
	}
	f := call.Common().StaticCallee()
	return f != nil && isFn(f)
}

// edgeFact returns the comparison established by taking the edge from->to.
func edgeFact(from, to *ssa.BasicBlock) (Cmp, bool) {
	iff := ifOf(from)
	if iff == nil || len(from.Succs) != 2 || from.Succs[0] == from.Succs[1] {
		return Cmp{}, false
	}
	return cmpOf(iff.Cond, from.Succs[0] == to)
}

// allPathsSatisfy enumerates the acyclic paths from `from` to `to` that do
// not enter a block for which avoid is true, and requires pred(edge facts of
// the path + facts dominating `from`) on each.  It returns the number of
// paths and whether all satisfied pred; more than 4096 paths count as failure.
func allPathsSatisfy(from, to *ssa.BasicBlock, avoid func(*ssa.BasicBlock) bool, pred func([]Cmp) bool) (n int, ok bool) {
	ok = true
	base := factsAt(from)
	on := map[*ssa.BasicBlock]bool{}
	var walk func(b *ssa.BasicBlock, facts []Cmp)
	walk = func(b *ssa.BasicBlock, facts []Cmp) {
		if n > 4096 {
			ok = false
			return
		}
		if b == to {
			n++
			if !pred(facts) {
				ok = false
			}
			return
		}
		on[b] = true
		for _, s := range b.Succs {
			if on[s] || (avoid != nil && avoid(s)) {
				continue
			}
			nf := facts
			if f, has := edgeFact(b, s); has {
				nf = append(append([]Cmp{}, facts...), f)
			}
			walk(s, nf)
		}
		on[b] = false
	}
	walk(from, base)
	return
}

// globalLoad: v is a load of the package-level variable g.
func isGlobalLoad(v ssa.Value, g *ssa.Global) bool {
	u, ok := v.(*ssa.UnOp)
	return ok && g != nil && u.Op == token.MUL && u.X == ssa.Value(g)
}

// staticCallTo: in is a direct call of fn.
func staticCallTo(in ssa.Instruction, fn *ssa.Function) bool {
	c, ok := in.(*ssa.Call)
	return ok && fn != nil && c.Common().StaticCallee() == fn
}

// condAssumption: taking the edge (cond == pol) pins the boolean SSA value
// underneath the negations.
func condAssumption(cond ssa.Value, pol bool) map[ssa.Value]bool {
	for {
		u, ok := cond.(*ssa.UnOp)
		if ok && u.Op == token.NOT {
			cond, pol = u.X, !pol
			continue
		}
		break
	}
	return map[ssa.Value]bool{cond: pol}
}

// pathCountAssuming is pathCount restricted to the paths that are consistent
// with the assumed values of boolean SSA values: at an If on an assumed value
// (possibly negated) only the matching successor is followed.
func pathCountAssuming(from *ssa.BasicBlock, match func(ssa.Instruction) bool, stop func(*ssa.BasicBlock) bool, assume map[ssa.Value]bool) (min, max int) {
	type res struct {
		min, max int
		ok       bool
	}
	memo := map[*ssa.BasicBlock]res{}
	onstack := map[*ssa.BasicBlock]bool{}
	var walk func(b *ssa.BasicBlock) res
	walk = func(b *ssa.BasicBlock) res {
		if stop != nil && stop(b) && b != from {
			return res{0, 0, true}
		}
		if r, ok := memo[b]; ok {
			return r
		}
		onstack[b] = true
		n := 0
		for _, in := range b.Instrs {
			if match(in) {
				n++
			}
		}
		r := res{-1, -1, false}
		if len(b.Succs) == 0 {
			r = res{0, 0, true}
		}
		succs := b.Succs
		if iff := ifOf(b); iff != nil && len(b.Succs) == 2 {
			c, pol := ssa.Value(iff.Cond), true
			for {
				u, ok := c.(*ssa.UnOp)
				if ok && u.Op == token.NOT {
					c, pol = u.X, !pol
					continue
				}
				break
			}
			if v, known := assume[c]; known {
				if v == pol {
					succs = b.Succs[:1]
				} else {
					succs = b.Succs[1:]
				}
			}
		}
		for _, s := range succs {
			if isBackEdge(b, s) || onstack[s] {
				if stop != nil && stop(s) {
					if !r.ok || 0 < r.min {
						r.min = 0
					}
					if !r.ok || r.max < 0 {
						r.max = 0
					}
					r.ok = true
				}
				continue
			}
			sr := walk(s)
			if !sr.ok {
				continue
			}
			if !r.ok || sr.min < r.min {
				r.min = sr.min
			}
			if !r.ok || sr.max > r.max {
				r.max = sr.max
			}
			r.ok = true
		}
		if r.ok {
			r.min += n
			r.max += n
		}
		onstack[b] = false
		memo[b] = r
		return r
	}
	r := walk(from)
	if !r.ok {
		return 0, 0
	}
	return r.min, r.max
}

// deferredIn: the instruction `in` runs exactly once at every exit of fn that
// follows the returned Defer: it is that Defer itself (defer close(ch)), or it
// sits unconditionally (dominating every return, outside loops) in a function
// literal whose only use is being deferred by fn.  nil otherwise.
func deferredIn(fn *ssa.Function, in ssa.Instruction) *ssa.Defer {
	if d, ok := in.(*ssa.Defer); ok {
		if d.Parent() == fn {
			return d
		}
		return nil
	}
	if _, isGo := in.(*ssa.Go); isGo {
		return nil
	}
	lit := in.Parent()
	if lit == nil || lit.Parent() != fn || in.Block() == nil {
		return nil
	}
	if inAnyLoop(in.Block()) {
		return nil
	}
	for _, r := range returnsOf(lit) {
		if !in.Block().Dominates(r.Block()) {
			return nil
		}
	}
	// the literal is used once, as the deferred function
	var found *ssa.Defer
	uses := 0
	instrsOf(fn, func(x ssa.Instruction) {
		switch y := x.(type) {
		case *ssa.MakeClosure:
			if y.Fn == lit {
				for _, r := range *y.Referrers() {
					uses++
					if d, ok := r.(*ssa.Defer); ok && d.Common().Value == y {
						found = d
					}
				}
			}
		case ssa.CallInstruction:
			if y.Common().Value == ssa.Value(lit) {
				uses++
				if d, ok := y.(*ssa.Defer); ok {
					found = d
				}
			}
		}
	})
	if uses != 1 {
		return nil
	}
	return found
}

// litParamBinding: the argument bound to a parameter of a function literal
// that is called at exactly one site (and has no other use) in its parent.
func litParamBinding(prm *ssa.Parameter) ssa.Value {
	lit := prm.Parent()
	if lit == nil || lit.Parent() == nil {
		return nil
	}
	idx := -1
	for i, q := range lit.Params {
		if q == prm {
			idx = i
		}
	}
	if idx < 0 {
		return nil
	}
	var site ssa.CallInstruction
	uses := 0
	instrsOf(lit.Parent(), func(x ssa.Instruction) {
		switch y := x.(type) {
		case *ssa.MakeClosure:
			if y.Fn == lit {
				for _, r := range *y.Referrers() {
					uses++
					if ci, ok := r.(ssa.CallInstruction); ok && ci.Common().Value == ssa.Value(y) {
						site = ci
					}
				}
			}
		case ssa.CallInstruction:
			if y.Common().Value == ssa.Value(lit) {
				uses++
				site = y
			}
		}
	})
	if uses != 1 || site == nil || idx >= len(site.Common().Args) {
		return nil
	}
	return site.Common().Args[idx]
}

// checkConfigNormalisers: every function func(T) T over a configuration
// struct of package knx (checkTunnelConfig, checkRouterConfig) returns, on
// every path, each field either unchanged or - numeric fields only - replaced
// by a constant default.  A normaliser that hands back another struct
// wholesale silently drops the caller's other settings.
func checkConfigNormalisers(c *Check, p *Program, rule string, typeName string) {
	n := 0
	for _, fn := range p.FuncsIn("knx") {
		if fn.Parent() != nil || len(fn.Params) != 1 || fn.Signature.Results().Len() != 1 || fn.Signature.Recv() != nil {
			continue
		}
		nt := namedOf(fn.Params[0].Type())
		if nt == nil || nt.Obj().Name() != typeName || !types.Identical(fn.Params[0].Type(), fn.Signature.Results().At(0).Type()) {
			continue
		}
		stT, ok := nt.Underlying().(*types.Struct)
		if !ok {
			continue
		}
		n++
		name := FuncName(fn)
		li := &layoutInterp{p: p}
		paths := li.run(fn, []AV{li.valueOfPath("cfg", fn.Params[0].Type())}, nil)
		bad := ""
		for _, pp := range paths {
			if len(pp.notes) > 0 {
				bad = "not understood: " + strings.Join(pp.notes, "; ")
				continue
			}
			for i := 0; i < stT.NumFields(); i++ {
				f := stT.Field(i)
				want := li.valueOfPath("cfg."+f.Name(), f.Type())
				var got AV
				switch r := pp.ret.(type) {
				case avAgg:
					got = r.elems["."+f.Name()]
				case avPath:
					if r.path == "cfg" {
						got = want
					}
				}
				same := describeAV(got) == describeAV(want) && fmt.Sprintf("%T", got) == fmt.Sprintf("%T", want)
				if gi, ok := got.(avInt); ok {
					wi, _ := want.(avInt)
					same = gi.bv.Equal(wi.bv)
					if _, isK := gi.bv.Const(); isK {
						// a constant default, for a numeric field only
						if bt, okB := f.Type().Underlying().(*types.Basic); okB && bt.Info()&types.IsNumeric != 0 {
							same = true
						}
					}
				}
				if !same {
					bad = fmt.Sprintf("on the path [%s] the result's %s is %s, not the caller's value", pathLabel(pp), f.Name(), describeAV(got))
				}
			}
		}
		c.Decide(bad == "" && len(paths) > 0, rule, name+" keeps the caller's other settings", p.Pos(fn.Pos()), fmt.Sprintf("%d path(s): every field is the argument's or a numeric default", len(paths)), "the configuration normaliser changes a field it should hand through: "+bad)
	}
	c.Floor(rule, "normalisers of knx."+typeName, n, 1)
}

// resolveCell peels loads of local variables that are assigned exactly once
// and never have their address taken (also when a closure captured them):
// the value assigned.  Other values are returned unchanged.
func resolveCell(v ssa.Value) ssa.Value {
	for i := 0; i < 6; i++ {
		u, ok := v.(*ssa.UnOp)
		if !ok || u.Op != token.MUL {
			return v
		}
		cell := cellOf(u.X)
		if cell == nil || cellEscapes(cell) {
			return v
		}
		sts := cellStores(cell)
		if len(sts) != 1 {
			return v
		}
		v = sts[0].Val
	}
	return v
}

// lockReleased: the Lock at call site lk is followed by an Unlock of the same
// mutex on every path to every return it can reach, or a deferred Unlock of
// that mutex is registered on the way to each of those returns.
func lockReleased(fn *ssa.Function, lk ssa.CallInstruction) (bool, string) {
	op, ok := mutexOp(lk)
	if !ok {
		return false, "not a mutex operation"
	}
	isUnlock := func(in ssa.Instruction) bool {
		ci, ok := in.(*ssa.Call)
		if !ok {
			return false
		}
		o, ok := mutexOp(ci)
		return ok && o.kind == "unlock" && o.key == op.key
	}
	var defers []*ssa.Defer
	instrsOf(fn, func(in ssa.Instruction) {
		if d, ok := in.(*ssa.Defer); ok {
			if o, ok := mutexOp(d); ok && o.kind == "unlock" && o.key == op.key {
				defers = append(defers, d)
				return
			}
			// a deferred function literal (or small helper) whose every path unlocks once
			var callee *ssa.Function
			if mc, isMC := d.Common().Value.(*ssa.MakeClosure); isMC {
				callee, _ = mc.Fn.(*ssa.Function)
			} else if f := d.Common().StaticCallee(); f != nil {
				callee = f
			}
			if callee != nil && len(callee.Blocks) > 0 && goroutineUnlocksOnce(callee, op.key) {
				defers = append(defers, d)
			}
		}
	})
	reach := reachableFrom(lk.Block(), nil)
	for _, r := range returnsOf(fn) {
		if !reach[r.Block()] && r.Block() != lk.Block() {
			continue
		}
		byDefer := false
		for _, d := range defers {
			if d.Block().Dominates(r.Block()) {
				byDefer = true
			}
		}
		if byDefer {
			continue
		}
		mn, _, okP := pathCountTo(lk.Block(), r.Block(), isUnlock)
		if !okP || mn < 1 {
			return false, "a path from the Lock to the return at line " + fmt.Sprint(fn.Prog.Fset.Position(r.Pos()).Line) + " neither unlocks nor has a deferred Unlock registered"
		}
	}
	return true, ""
}

// reachUntil: the blocks reachable from s without entering stop; empty when s
// is stop itself (the edge leads straight back).
func reachUntil(s, stop *ssa.BasicBlock) map[*ssa.BasicBlock]bool {
	if s == stop {
		return map[*ssa.BasicBlock]bool{}
	}
	return reachableFrom(s, func(from, to *ssa.BasicBlock) bool { return to == stop })
}

// checkNoLockCopies: a structure that holds a mutex, a Once or a WaitGroup by
// value is only ever used through a pointer - no method with a value
// receiver, no load of the whole structure, no parameter or result of the
// structure type.  A copy has its own lock: what the copy's holder excludes
// is not what the original's holder excludes.
func checkNoLockCopies(c *Check, p *Program, rule string, rel, typeName string) {
	nt := p.Named(rel, typeName)
	if nt == nil {
		c.Fail(rule, rel+"."+typeName, "", "type not found")
		return
	}
	st, ok := nt.Underlying().(*types.Struct)
	if !ok {
		return
	}
	hasLock := false
	for i := 0; i < st.NumFields(); i++ {
		if n := namedOf(st.Field(i).Type()); n != nil && n.Obj().Pkg() != nil && n.Obj().Pkg().Path() == "sync" {
			if _, isPtr := st.Field(i).Type().(*types.Pointer); !isPtr {
				hasLock = true
			}
		}
	}
	if !hasLock {
		c.Fail(rule, typeName+" holds its locks by value", p.Pos(nt.Obj().Pos()), "no sync field found in the structure: the lock rules of this check have lost their anchor")
		return
	}
	bad := ""
	for i := 0; i < nt.NumMethods(); i++ {
		m := nt.Method(i)
		if sig, ok := m.Type().(*types.Signature); ok && sig.Recv() != nil {
			if _, isPtr := sig.Recv().Type().(*types.Pointer); !isPtr {
				bad = "method " + m.Name() + " has a value receiver: every call works on a copy of the structure with its own lock"
			}
		}
	}
	isT := func(t types.Type) bool { return types.Identical(t, nt) }
	for _, fn := range p.AllFuncs {
		if fn.Pkg == nil || !p.InModule(fn) || fn.Synthetic != "" {
			continue
		}
		for _, prm := range fn.Params {
			if isT(prm.Type()) && bad == "" {
				bad = FuncName(fn) + " takes a " + typeName + " by value"
			}
		}
		instrsOf(fn, func(in ssa.Instruction) {
			if u, ok := in.(*ssa.UnOp); ok && u.Op == token.MUL && isT(u.Type()) && bad == "" {
				bad = "the whole structure is copied at " + p.InstrPos(u)
			}
		})
	}
	c.Decide(bad == "", rule, typeName+" is never copied (it holds locks by value)", p.Pos(nt.Obj().Pos()), "pointer receivers only, no by-value parameter, no load of the whole structure", bad)
}
