package main

import (
	"fmt"
	"go/types"
	"sort"
	"strings"

	"golang.org/x/tools/go/ssa"
)

// Platform rule shared by every check: 64-bit operations of sync/atomic on a
// raw word must address a 64-bit aligned word on every platform Go supports.
// On 386, arm and mips32 a uint64/int64 struct field is only 4-byte aligned;
// sync/atomic panics ("unaligned 64-bit atomic operation") when the word sits
// at an offset that is not a multiple of 8.  The function that performs the
// operation then never does what the property says it does: a Send that
// counts frames emits none, a worker that counts reconnects dies at the first
// one.  The rule is evaluated with the 386 layout in every run (the layout is
// computed from the types, not from the configuration under analysis), on the
// functions the check analysed and everything they call, start as goroutines,
// defer or bind as closures inside the module.
//
// Decided: the address is a chain of field selections off an allocation
// (receiver, parameter, local, global - Go aligns the first word of every
// allocated struct) and the summed 386 offset of the chain is a multiple of 8.
// The typed wrappers atomic.Int64/Uint64 carry their own alignment and are not
// subject to the rule.  Anything else (address arithmetic through unsafe, an
// element of a slice of structs) is reported as undecided.

var atomic64 = map[string]bool{
	"AddInt64": true, "AddUint64": true, "LoadInt64": true, "LoadUint64": true,
	"StoreInt64": true, "StoreUint64": true, "SwapInt64": true, "SwapUint64": true,
	"CompareAndSwapInt64": true, "CompareAndSwapUint64": true,
	"AndInt64": true, "AndUint64": true, "OrInt64": true, "OrUint64": true,
}

var platformPkgs = map[string][]string{
	"C01": {"knx/cemi", "knx/knxnet", "knx/util"},
	"C02": {"knx/cemi", "knx/knxnet", "knx/util"},
	"C11": {"knx/cemi"},
	"C15": {"knx/cemi", "knx/knxnet", "knx/util"},
	"C18": {"knx/cemi"},
	"C06": {"knx/dpt"},
	"C07": {"knx/dpt"},
	"C08": {"knx/dpt"},
	"C19": {"knx/dpt"},
}

func runPlatform(c *Check, p *Program) {
	// scope: every function the check recorded as analysed (whatever the
	// category) and, for the codec properties, every function of the codec
	// packages - their obligations range over all types of the package
	names := map[string]bool{}
	for _, m := range c.analysed {
		for n := range m {
			names[n] = true
		}
	}
	for _, rel := range platformPkgs[c.Prop] {
		if sp := p.SSAPkg[modPath+"/"+rel]; sp != nil {
			for _, f := range p.AllFuncs {
				if f.Pkg == sp {
					names[FuncName(f)] = true
				}
			}
		}
	}
	if len(names) == 0 {
		return
	}
	byName := map[string]*ssa.Function{}
	for _, f := range p.AllFuncs {
		byName[FuncName(f)] = f
	}
	seen := map[*ssa.Function]bool{}
	var work []*ssa.Function
	push := func(f *ssa.Function) {
		if f == nil || seen[f] || f.Blocks == nil || f.Pkg == nil || p.SSAPkg[f.Pkg.Pkg.Path()] == nil {
			return
		}
		seen[f] = true
		work = append(work, f)
	}
	var sorted []string
	for n := range names {
		sorted = append(sorted, n)
	}
	sort.Strings(sorted)
	for _, n := range sorted {
		if f := byName[n]; f != nil {
			push(f)
		}
	}
	sizes := types.SizesFor("gc", "386")
	nSites := 0
	for len(work) > 0 {
		f := work[len(work)-1]
		work = work[:len(work)-1]
		for _, af := range f.AnonFuncs {
			push(af)
		}
		for _, b := range f.Blocks {
			for _, in := range b.Instrs {
				ci, ok := in.(ssa.CallInstruction)
				if !ok {
					continue
				}
				if g := calleeFunc(ci); g != nil {
					push(g)
				}
				obj := calleeObj(ci)
				if obj == nil || obj.Pkg() == nil || obj.Pkg().Path() != "sync/atomic" || !atomic64[obj.Name()] {
					continue
				}
				if sig, _ := obj.Type().(*types.Signature); sig == nil || sig.Recv() != nil {
					continue
				}
				args := callArgs(ci)
				if len(args) == 0 {
					continue
				}
				nSites++
				key := fmt.Sprintf("%s %s(%s)", FuncName(f), obj.Name(), describeAddr(args[0]))
				off, chain, ok := offset386(args[0], sizes)
				switch {
				case !ok:
					c.Fail("PLATFORM.atomic64", key, p.Pos(in.Pos()), "cannot establish that the word is 64-bit aligned on 32-bit platforms: the address is not a chain of field selections off an allocation")
				case off%8 != 0:
					c.Fail("PLATFORM.atomic64", key, p.Pos(in.Pos()), fmt.Sprintf("on 386/arm the word lies at offset %d (%s) of its allocation, not a multiple of 8: sync/atomic panics with \"unaligned 64-bit atomic operation\" and the function never completes", off, chain))
				default:
					c.OK("PLATFORM.atomic64", key, p.Pos(in.Pos()), fmt.Sprintf("offset %d on 386 (%s)", off, chain))
				}
			}
		}
	}
	c.OK("PLATFORM.atomic64", "scan", "", fmt.Sprintf("%d function(s) reachable from the analysed ones scanned, %d raw 64-bit atomic operation(s)", len(seen), nSites))
}

func describeAddr(v ssa.Value) string {
	if pth := addrPath(v); pth != nil {
		return pth.String()
	}
	return strings.TrimSpace(v.String())
}

// offset386 sums the offsets of a field-selection chain under the given sizes.
func offset386(v ssa.Value, sizes types.Sizes) (int64, string, bool) {
	var off int64
	var parts []string
	for depth := 0; depth < 16; depth++ {
		switch a := v.(type) {
		case *ssa.FieldAddr:
			st, _ := deref(a.X.Type()).Underlying().(*types.Struct)
			if st == nil {
				return 0, "", false
			}
			var fs []*types.Var
			for i := 0; i < st.NumFields(); i++ {
				fs = append(fs, st.Field(i))
			}
			offs := sizes.Offsetsof(fs)
			off += offs[a.Field]
			parts = append([]string{fmt.Sprintf("%s@%d", st.Field(a.Field).Name(), offs[a.Field])}, parts...)
			v = a.X
		case *ssa.IndexAddr:
			// element of an array inside the allocation: the element size
			// decides; only arrays of 8-byte multiples keep the alignment
			at, _ := deref(a.X.Type()).Underlying().(*types.Array)
			if at == nil || sizes.Sizeof(at.Elem())%8 != 0 {
				return 0, "", false
			}
			parts = append([]string{"[i]"}, parts...)
			v = a.X
		case *ssa.Alloc, *ssa.Global, *ssa.Parameter, *ssa.FreeVar:
			return off, strings.Join(parts, "."), true
		case *ssa.UnOp:
			// a pointer loaded from somewhere: start of another allocation
			if _, isPtr := a.Type().Underlying().(*types.Pointer); isPtr {
				return off, strings.Join(parts, "."), true
			}
			return 0, "", false
		case *ssa.Call, *ssa.Phi, *ssa.Extract, *ssa.MakeInterface, *ssa.TypeAssert:
			if _, isPtr := a.Type().Underlying().(*types.Pointer); isPtr {
				return off, strings.Join(parts, "."), true
			}
			return 0, "", false
		default:
			return 0, "", false
		}
	}
	return 0, "", false
}

// isSyncAtomic reports whether fn is a function or method of sync/atomic.
func isSyncAtomic(fn *types.Func) bool {
	return fn != nil && fn.Pkg() != nil && fn.Pkg().Path() == "sync/atomic"
}

// onlyAtomicUses: the value (an address, or a pointer to a struct of counters)
// is used for nothing but sync/atomic operations on the words it leads to:
// such words are shared between goroutines by design and every access is
// atomic, so they carry no state that concurrent callers could tear.
func onlyAtomicUses(v ssa.Value, depth int) bool {
	if depth > 6 {
		return false
	}
	refs := v.Referrers()
	if refs == nil {
		return false
	}
	n := 0
	for _, r := range *refs {
		switch x := r.(type) {
		case *ssa.DebugRef:
		case *ssa.FieldAddr:
			if x.X != v || !onlyAtomicUses(x, depth+1) {
				return false
			}
			n++
		case *ssa.IndexAddr:
			if x.X != v || !onlyAtomicUses(x, depth+1) {
				return false
			}
			n++
		case ssa.CallInstruction:
			args := x.Common().Args
			if x.Common().IsInvoke() || !isSyncAtomic(calleeObj(x)) || len(args) == 0 || args[0] != v {
				return false
			}
			n++
		default:
			return false
		}
	}
	return n > 0
}
