package main

import (
	"go/types"
	"sort"

	"golang.org/x/tools/go/ssa"
)

// CallEdge is one resolved call inside the module.
type CallEdge struct {
	Caller *ssa.Function
	Callee *ssa.Function
	Site   ssa.Instruction
	Kind   string // "call", "defer", "go", "once", "afterfunc", "invoke"
}

func (e CallEdge) Async() bool { return e.Kind == "go" || e.Kind == "afterfunc" }

// CG is a module-restricted call graph: static callees, directly applied
// closures, sync.Once.Do / time.AfterFunc arguments, and interface invokes
// resolved by class hierarchy over the module's named types.
type CG struct {
	Out map[*ssa.Function][]CallEdge
	In  map[*ssa.Function][]CallEdge
	// closures handed to functions we do not model
	Unmodelled []CallEdge
}

func (p *Program) allNamedTypes() []*types.Named {
	var out []*types.Named
	for _, pk := range p.Pkgs {
		sc := pk.Types.Scope()
		for _, n := range sc.Names() {
			if tn, ok := sc.Lookup(n).(*types.TypeName); ok && !tn.IsAlias() {
				if nt, ok := tn.Type().(*types.Named); ok {
					out = append(out, nt)
				}
			}
		}
	}
	return out
}

func fnOfValue(v ssa.Value) *ssa.Function {
	switch x := v.(type) {
	case *ssa.Function:
		return x
	case *ssa.MakeClosure:
		return x.Fn.(*ssa.Function)
	}
	return nil
}

// boundTarget: for a `recv.Method` method value ($bound wrapper) return the
// underlying method.
func boundTarget(fn *ssa.Function) *ssa.Function {
	if fn == nil || fn.Synthetic == "" {
		return fn
	}
	// a $bound wrapper has exactly one call in its body
	for _, b := range fn.Blocks {
		for _, in := range b.Instrs {
			if c, ok := in.(*ssa.Call); ok {
				if t := c.Common().StaticCallee(); t != nil {
					return t
				}
			}
		}
	}
	return fn
}

func (p *Program) CallGraph() *CG {
	cg := &CG{Out: map[*ssa.Function][]CallEdge{}, In: map[*ssa.Function][]CallEdge{}}
	named := p.allNamedTypes()
	add := func(e CallEdge) {
		if e.Callee == nil {
			return
		}
		cg.Out[e.Caller] = append(cg.Out[e.Caller], e)
		cg.In[e.Callee] = append(cg.In[e.Callee], e)
	}
	for _, fn := range p.AllFuncs {
		if fn.Synthetic != "" {
			// promoted-method wrappers, thunks and bound-method closures are
			// not callers of their own: go/ssa compiles a promoted call as a
			// direct call of the declared method; $bound wrappers are resolved
			// to their target at the use site (boundTarget).
			continue
		}
		for _, b := range fn.Blocks {
			for _, in := range b.Instrs {
				ci, ok := in.(ssa.CallInstruction)
				if !ok {
					continue
				}
				kind := "call"
				switch in.(type) {
				case *ssa.Defer:
					kind = "defer"
				case *ssa.Go:
					kind = "go"
				}
				cc := ci.Common()
				if cc.IsInvoke() {
					for _, nt := range named {
						for _, t := range []types.Type{nt, types.NewPointer(nt)} {
							if _, isIface := nt.Underlying().(*types.Interface); isIface {
								continue
							}
							if !types.Implements(t, cc.Value.Type().Underlying().(*types.Interface)) {
								continue
							}
							ms := p.SSA.MethodSets.MethodSet(t)
							if sel := ms.Lookup(cc.Method.Pkg(), cc.Method.Name()); sel != nil {
								if m := p.SSA.MethodValue(sel); m != nil && p.InModule(m) {
									k := "invoke"
									if kind == "go" {
										k = "go"
									}
									add(CallEdge{fn, boundTarget(m), in, k})
								}
							}
						}
					}
					continue
				}
				if callee := fnOfValue(cc.Value); callee != nil {
					if p.InModule(callee) {
						add(CallEdge{fn, boundTarget(callee), in, kind})
						continue
					}
					// closures passed to library functions
					o := calleeObj(ci)
					for _, a := range cc.Args {
						af := fnOfValue(a)
						if af == nil || !p.InModule(af) {
							continue
						}
						switch {
						case funcIs(o, "sync", "Once", "Do"):
							add(CallEdge{fn, boundTarget(af), in, "once"})
						case funcIs(o, "time", "", "AfterFunc"):
							add(CallEdge{fn, boundTarget(af), in, "afterfunc"})
						default:
							e := CallEdge{fn, boundTarget(af), in, "call"}
							cg.Unmodelled = append(cg.Unmodelled, e)
							add(e)
						}
					}
				}
			}
		}
	}
	return cg
}

// Root describes how a function comes to run.
type Root struct {
	Kind string        // "go", "afterfunc", "api"
	Fn   *ssa.Function // the goroutine's function, or the API entry
	Site ssa.Instruction
}

// rootsOf walks synchronous callers of fn up to goroutine starts and
// functions nobody in the module calls (API entries).
func (cg *CG) rootsOf(fn *ssa.Function) []Root {
	seen := map[*ssa.Function]bool{}
	var out []Root
	var walk func(f *ssa.Function)
	walk = func(f *ssa.Function) {
		if seen[f] {
			return
		}
		seen[f] = true
		ins := cg.In[f]
		if len(ins) == 0 {
			out = append(out, Root{Kind: "api", Fn: f})
			return
		}
		for _, e := range ins {
			if e.Async() {
				out = append(out, Root{Kind: e.Kind, Fn: f, Site: e.Site})
			} else {
				walk(e.Caller)
			}
		}
	}
	walk(fn)
	sort.Slice(out, func(i, j int) bool {
		if out[i].Fn.String() != out[j].Fn.String() {
			return out[i].Fn.String() < out[j].Fn.String()
		}
		return out[i].Kind < out[j].Kind
	})
	return out
}

// rootsOfOp: rootsOf for a channel operation.  When the channel is a parameter of a shared helper, only the
// call sites of the helper that bind the parameter to the operation's field lead to its goroutine contexts.
func (cg *CG) rootsOfOp(op ChanOp) []Root {
	if op.ViaParam == nil {
		return cg.rootsOf(op.Fn)
	}
	helper := op.ViaParam.Parent()
	idx := -1
	for i, prm := range helper.Params {
		if prm == op.ViaParam {
			idx = i
		}
	}
	seen := map[*ssa.Function]bool{}
	var out []Root
	var walk func(f *ssa.Function)
	walk = func(f *ssa.Function) {
		if seen[f] {
			return
		}
		seen[f] = true
		ins := cg.In[f]
		if len(ins) == 0 {
			out = append(out, Root{Kind: "api", Fn: f})
			return
		}
		for _, e := range ins {
			if f == helper {
				ci, ok := e.Site.(ssa.CallInstruction)
				if !ok || idx < 0 || idx >= len(ci.Common().Args) || chanField(ci.Common().Args[idx]) != op.Field {
					continue
				}
			}
			if e.Async() {
				out = append(out, Root{Kind: e.Kind, Fn: f, Site: e.Site})
			} else {
				walk(e.Caller)
			}
		}
	}
	walk(op.Fn)
	sort.Slice(out, func(i, j int) bool {
		if out[i].Fn.String() != out[j].Fn.String() {
			return out[i].Fn.String() < out[j].Fn.String()
		}
		return out[i].Kind < out[j].Kind
	})
	return out
}

// reachableSync returns the functions reachable from fn through synchronous
// edges (fn included).
func (cg *CG) reachableSync(fn *ssa.Function) map[*ssa.Function]bool {
	seen := map[*ssa.Function]bool{fn: true}
	work := []*ssa.Function{fn}
	for len(work) > 0 {
		f := work[len(work)-1]
		work = work[:len(work)-1]
		for _, e := range cg.Out[f] {
			if e.Async() || seen[e.Callee] {
				continue
			}
			seen[e.Callee] = true
			work = append(work, e.Callee)
		}
	}
	return seen
}

// isConstructorOf reports whether fn allocates a value of the named struct
// type and returns (a pointer to) it.
func isConstructorOf(fn *ssa.Function, st *types.Named) bool {
	if fn == nil || st == nil {
		return false
	}
	allocs := map[ssa.Value]bool{}
	for _, b := range fn.Blocks {
		for _, in := range b.Instrs {
			if a, ok := in.(*ssa.Alloc); ok && types.Identical(deref(a.Type()), st) {
				allocs[a] = true
			}
		}
	}
	if len(allocs) == 0 {
		return false
	}
	for _, r := range returnsOf(fn) {
		for i := range r.Results {
			if u, ok := r.Results[i].(*ssa.UnOp); ok && allocs[u.X] {
				return true
			}
			for _, v := range resultValues(r, i) {
				if allocs[v] {
					return true
				}
				if ph, ok := v.(*ssa.Phi); ok {
					for _, e := range ph.Edges {
						if allocs[e] {
							return true
						}
					}
				}
			}
		}
	}
	return false
}

// isLibraryAPI: fn is an exported function or method of a library package
// (everything below knx/), i.e. an entry point applications call.
func isLibraryAPI(fn *ssa.Function) bool {
	if fn == nil || fn.Parent() != nil || fn.Object() == nil || !fn.Object().Exported() {
		return false
	}
	pk := fnPkg(fn)
	if pk == nil {
		return false
	}
	path := pk.Pkg.Path()
	return path == modPath+"/knx" || len(path) > len(modPath+"/knx/") && path[:len(modPath+"/knx/")] == modPath+"/knx/"
}

// rootsAPI is rootsOf with the library's API boundary: the upward walk stops
// at exported library functions (they are called by applications, any number
// of goroutines), and callers outside the library (cmd/...) are ignored.
func (cg *CG) rootsAPI(fn *ssa.Function) []Root {
	seen := map[*ssa.Function]bool{}
	var out []Root
	var walk func(f *ssa.Function)
	walk = func(f *ssa.Function) {
		if seen[f] {
			return
		}
		seen[f] = true
		if isLibraryAPI(f) {
			out = append(out, Root{Kind: "api", Fn: f})
			return
		}
		n := 0
		for _, e := range cg.In[f] {
			pk := fnPkg(e.Caller)
			if pk != nil && !isLibraryPkg(pk.Pkg.Path()) {
				continue
			}
			n++
			if e.Async() {
				out = append(out, Root{Kind: e.Kind, Fn: f, Site: e.Site})
			} else {
				walk(e.Caller)
			}
		}
		if n == 0 {
			out = append(out, Root{Kind: "api", Fn: f})
		}
	}
	walk(fn)
	sort.Slice(out, func(i, j int) bool {
		if out[i].Fn.String() != out[j].Fn.String() {
			return out[i].Fn.String() < out[j].Fn.String()
		}
		return out[i].Kind < out[j].Kind
	})
	return out
}

func isLibraryPkg(path string) bool {
	return path == modPath+"/knx" || (len(path) > len(modPath)+5 && path[:len(modPath)+5] == modPath+"/knx/")
}
