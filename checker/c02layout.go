package main

import (
	"fmt"
	"strconv"
	"go/constant"
	"go/token"
	"go/types"
	"sort"
	"strings"

	"golang.org/x/tools/go/ssa"
)

func init() { layoutRulesC02 = checkC02Layout }

// wItem is one element of a wire layout in stream order.
type wItem struct {
	width *Lin
	kind  string // "field", "const", "nested", "bytes", "local", "mixed"
	path  string // field path relative to the receiver ("r.X")
	val   int64  // const value / validated constant
	hasV  bool   // local: compared against val after decoding
	desc  string
	// local: exact set of values with which the decoder can still succeed
	accepted finSet
	hasAcc   bool
	call     *ssa.Call // tail: the decode call on the rest of the input
}

func (w wItem) String() string {
	switch w.kind {
	case "field", "nested", "bytes":
		return fmt.Sprintf("%s %s (%s)", w.kind, w.path, w.width)
	case "const":
		return fmt.Sprintf("const %#x (%s)", w.val, w.width)
	case "local":
		if w.hasV {
			return fmt.Sprintf("validated == %#x (%s)", w.val, w.width)
		}
		return fmt.Sprintf("ignored (%s)", w.width)
	}
	return w.kind + " " + w.desc
}

// packItems turns the writes of one encoder path into stream items.
func packItems(env Env, pp *lpath) ([]wItem, string) {
	ws := append([]bufWrite{}, pp.writes...)
	// keep the final write per fixed byte, order by offset
	var fin []bufWrite
	for i, w := range ws {
		if w.off == nil || w.n == nil {
			return nil, "non-linear write"
		}
		if w.kind == "byte" {
			over := false
			for _, l := range ws[i+1:] {
				if l.kind == "byte" && l.off != nil && l.off.Equal(w.off) {
					over = true
				}
			}
			if over {
				continue
			}
		}
		if k, ok := w.n.IsConst(); ok && k == 0 {
			continue
		}
		fin = append(fin, w)
	}
	for i := 1; i < len(fin); i++ {
		for j := i; j > 0; j-- {
			if env.le(fin[j-1].off, fin[j].off) {
				break
			}
			if !env.le(fin[j].off, fin[j-1].off) {
				return nil, "offsets cannot be ordered"
			}
			fin[j-1], fin[j] = fin[j], fin[j-1]
		}
	}
	var out []wItem
	for _, w := range fin {
		switch w.kind {
		case "nested":
			out = append(out, wItem{width: w.n, kind: "nested", path: strings.TrimPrefix(w.src, "&")})
		case "seg", "repeat":
			out = append(out, wItem{width: w.n, kind: "bytes", path: w.src})
		case "byte":
			if k, ok := w.bv.Const(); ok {
				out = append(out, wItem{width: linConst(1), kind: "const", val: int64(k)})
				continue
			}
			// all eight bits from one source, contiguous
			src, lo, okF := "", -1, true
			for i, b := range w.bv {
				if b.K != bsrc {
					okF = false
					break
				}
				if i == 0 {
					src, lo = b.Src, b.Idx
				} else if b.Src != src || b.Idx != lo+i {
					okF = false
				}
			}
			if !okF || lo%8 != 0 {
				out = append(out, wItem{width: linConst(1), kind: "mixed", desc: w.bv.String()})
				continue
			}
			// merge with the previous byte of the same field (big endian: previous holds the higher bits)
			if n := len(out); n > 0 && out[n-1].kind == "field" && out[n-1].path == src && out[n-1].val == int64(lo+8) {
				out[n-1].width = out[n-1].width.Add(linConst(1))
				out[n-1].val = int64(lo)
				continue
			}
			out = append(out, wItem{width: linConst(1), kind: "field", path: src, val: int64(lo)})
		}
	}
	// a multi-byte field must end at bit 0
	for i := range out {
		if out[i].kind == "field" {
			if out[i].val != 0 {
				out[i].kind, out[i].desc = "mixed", fmt.Sprintf("%s from bit %d", out[i].path, out[i].val)
			}
			out[i].val = 0
		}
	}
	return out, ""
}

// recvPath renders the access path of an address/pointer relative to the
// receiver parameter as "r.X.Y"; "" if it does not start at the receiver.
func recvPath(fn *ssa.Function, v ssa.Value) string {
	v = stripPtrConv(v)
	var pa *Path
	switch v.(type) {
	case *ssa.FieldAddr, *ssa.IndexAddr:
		pa = addrPath(v)
	default:
		pa = valuePath(v)
	}
	if len(fn.Params) == 0 || pa.Root != ssa.Value(fn.Params[0]) {
		return ""
	}
	s := "r"
	for _, sl := range pa.Sels {
		if sl.IsIdx {
			s += fmt.Sprintf("[%d]", sl.Index)
		} else {
			s += "." + sl.Field.Name()
		}
	}
	return s
}

// unpackItems derives the stream items of a decoder that starts with one
// util.UnpackSome(data, ...) and optionally continues with one decode call on
// data[n:].  ok=false when the decoder has another shape.
func unpackItems(p *Program, fn *ssa.Function) (items []wItem, ok bool, why string) {
	in := inputParam(fn)
	var us []*ssa.Call
	instrsOf(fn, func(x ssa.Instruction) {
		if call, isC := x.(*ssa.Call); isC && callIs(call, utilPath, "", "UnpackSome") {
			us = append(us, call)
		}
	})
	if len(us) != 1 || us[0].Common().Args[0] != ssa.Value(in) || len(loopHeaders(fn)) > 0 {
		return nil, false, "not a single UnpackSome over the input"
	}
	vals, opaque := ifaceArgs(us[0], true)
	if opaque {
		return nil, false, "argument list not literal"
	}
	for _, v := range vals {
		mi, isMI := v.(*ssa.MakeInterface)
		if !isMI {
			return nil, false, "item is not a boxed value"
		}
		t := mi.X.Type()
		if pt, isP := t.(*types.Pointer); isP {
			if w := primWidth(pt.Elem()); w > 0 {
				path := recvPath(fn, mi.X)
				if path != "" {
					items = append(items, wItem{width: linConst(w), kind: "field", path: path})
					continue
				}
				// a local: is it validated against a constant afterwards?
				it := wItem{width: linConst(w), kind: "local"}
				if cell, isCell := stripPtrConv(mi.X).(*ssa.Alloc); isCell {
					it.desc = cell.Comment
					instrsOf(fn, func(x ssa.Instruction) {
						iff, isIf := x.(*ssa.If)
						if !isIf {
							return
						}
						cm, _ := cmpOf(iff.Cond, true)
						for _, pr := range [][2]ssa.Value{{cm.X, cm.Y}, {cm.Y, cm.X}} {
							u, isU := pr[0].(*ssa.UnOp)
							if !isU || u.Op != token.MUL || u.X != ssa.Value(cell) || (cm.Op != token.EQL && cm.Op != token.NEQ) {
								continue
							}
							if k, isK := constInt(pr[1]); isK {
								it.val, it.hasV = k, true
							} else if cv, isCv := pr[1].(*ssa.Convert); isCv {
								// compared with uint8(x.Size()) of a constant-size type
								if call, isCall := cv.X.(*ssa.Call); isCall {
									if f := call.Common().StaticCallee(); f != nil && f.Name() == "Size" && f.Signature.Recv() != nil {
										if k, okc := constSize(p, namedOf(f.Signature.Recv().Type())); okc {
											it.val, it.hasV = k, true
										}
									}
								}
							}
						}
					})
				}
				// the exact set of values of the local with which a successful return is reachable
				if cell, isCell := stripPtrConv(mi.X).(*ssa.Alloc); isCell {
					var ld ssa.Value
					instrsOf(fn, func(x ssa.Instruction) {
						if u, isU := x.(*ssa.UnOp); isU && u.Op == token.MUL && u.X == ssa.Value(cell) && ld == nil {
							ld = u
						}
					})
					if ld != nil {
						acc := finSet{}
						okAll := true
						for _, r := range returnsOf(fn) {
							if len(r.Results) < 2 || !p.returnMayBeNil(r, len(r.Results)-1) {
								continue
							}
							set, okS := finSetAtRoot(ld, r.Block(), ld)
							if !okS {
								okAll = false
								break
							}
							for v, in := range set {
								if in {
									acc[v] = true
								}
							}
						}
						if okAll {
							it.accepted, it.hasAcc = acc, true
						}
					}
				}
				items = append(items, it)
				continue
			}
			// pointer to an Unpackable
			path := recvPath(fn, mi.X)
			w := linSym("Size(" + path + ")")
			if nt := namedOf(pt.Elem()); nt != nil {
				if k, okc := constSize(p, nt); okc {
					w = linConst(k)
				}
			}
			items = append(items, wItem{width: w, kind: "nested", path: path})
			continue
		}
		if isByteSlice(t) {
			// array slice of a field, or a byte-slice field
			if sl, isSl := mi.X.(*ssa.Slice); isSl {
				path := recvPath(fn, sl.X)
				n := int64(-1)
				if at, isArr := deref(sl.X.Type()).Underlying().(*types.Array); isArr {
					n = at.Len()
					if sl.High != nil {
						n, _ = constInt(sl.High)
					}
					if sl.Low != nil {
						lo, _ := constInt(sl.Low)
						n -= lo
					}
				}
				if n >= 0 {
					items = append(items, wItem{width: linConst(n), kind: "bytes", path: path})
					continue
				}
			}
			if mk := makeSliceOrigin(stripPtrConv(mi.X)); mk != nil {
				if k, isK := constInt(mk.Len); isK {
					items = append(items, wItem{width: linConst(k), kind: "bytes", path: recvPath(fn, stripPtrConv(mi.X))})
					continue
				}
			}
			if cv, isCv := mi.X.(*ssa.Convert); isCv {
				if mk := makeSliceOrigin(cv.X); mk != nil {
					if k, isK := constInt(mk.Len); isK {
						items = append(items, wItem{width: linConst(k), kind: "bytes", path: recvPath(fn, cv.X)})
						continue
					}
				}
			}
			// a byte-slice field the decoder allocated itself with a constant length
			if f := loadedField(stripPtrConv(mi.X)); f != nil {
				n := int64(-1)
				instrsOf(fn, func(x ssa.Instruction) {
					if st, isSt := x.(*ssa.Store); isSt && fieldOfAddr(st.Addr) == f {
						switch mk := stripPtrConv(st.Val).(type) {
						case *ssa.MakeSlice:
							if k, isK := constInt(mk.Len); isK {
								n = k
							}
						case *ssa.Slice:
							// make([]byte, const) is lowered to new [N]byte + slice
							if al, isAl := mk.X.(*ssa.Alloc); isAl {
								if at, isArr := deref(al.Type()).Underlying().(*types.Array); isArr {
									n = at.Len()
									if mk.High != nil {
										n, _ = constInt(mk.High)
									}
								}
							}
						}
					}
				})
				if n >= 0 {
					items = append(items, wItem{width: linConst(n), kind: "bytes", path: recvPath(fn, unOpAddr(stripPtrConv(mi.X)))})
					continue
				}
			}
			return nil, false, "byte-slice item of unknown length"
		}
		return nil, false, "item of unsupported type " + typeName(t)
	}
	// an optional tail: g(data[n:], &r.F) or r.F.Unpack(data[n:])
	instrsOf(fn, func(x ssa.Instruction) {
		call, isC := x.(*ssa.Call)
		if !isC || call == us[0] {
			return
		}
		for i, a := range call.Common().Args {
			sl, isSl := a.(*ssa.Slice)
			if !isSl || sl.X != ssa.Value(in) || sl.High != nil {
				continue
			}
			// destination: the receiver of the call (method) or the next pointer argument
			dest := ""
			for j, b := range call.Common().Args {
				if j != i {
					if pth := recvPath(fn, b); pth != "" && pth != "r" {
						dest = pth
					}
				}
			}
			if dest != "" {
				items = append(items, wItem{width: linSym("Size(" + dest + ")"), kind: "nested", path: dest, desc: "tail", call: call})
			}
		}
	})
	return items, true, ""
}

func normPath(s string) string {
	s = strings.TrimPrefix(s, "&")
	if strings.HasPrefix(s, "iface(") {
		s = strings.TrimSuffix(strings.TrimPrefix(s, "iface("), ")")
	}
	return s
}

// otherShapeDecoder: decoders that are not "one UnpackSome over the input" and
// the rule that judges each instead.
var otherShapeDecoder = map[string]bool{
	"cemi.Info":                   true, // C11.decode: length-prefixed decoder rule
	"cemi.LBusmonInd":             true, // byte-copy rule
	"cemi.LRaw":                   true, // byte-copy rule
	"cemi.UnsupportedMessage":     true, // byte-copy rule
	"knxnet.UnknownService":       true, // byte-copy rule
	"knxnet.RoutingInd":           true, // header constants + cemi.Unpack of the rest (tail rule)
	"knxnet.DescriptionRes":       true, // DescriptionBlock TLV loop (C02.tlv)
	"knxnet.SupportedServicesDIB": true, // family loop (C02.tlv)
}

func checkC02Layout(c *Check, p *Program) {
	rule := "C02.layout"
	nCmp, nSkip, nTail := 0, 0, 0
	var skipped []string
	for _, pt := range declaredPackTypes(p) {
		un := methodOf(p, pt.nt, "Unpack")
		if un == nil || len(un.Blocks) == 0 || !isDecodeShape(un) {
			continue
		}
		tn := typeName(pt.nt)
		uitems, ok, why := unpackItems(p, un)
		if !ok {
			nSkip++
			skipped = append(skipped, tn+": "+why)
			// decoders of another shape are decided elsewhere (byte-copy rule below, C11.decode, the dispatcher rules);
			// the list is fixed: a decoder that loses its UnpackSome call does not silently join it
			if !otherShapeDecoder[tn] {
				// a hand-written field-by-field decoder: both directions interpreted, the encoder's octets fed to the decoder
				if okR, und, detail := roundTripByInterpretation(p, pt.nt, pt.pack, un); okR {
					c.OK(rule, tn+" decoder inverts the encoder (both interpreted)", p.Pos(un.Pos()), detail)
					continue
				} else if !und {
					c.Fail(rule, tn+" decoder inverts the encoder (both interpreted)", p.Pos(un.Pos()), detail)
					continue
				}
				c.Fail(rule, tn+" decoder has the item-list shape", p.Pos(un.Pos()), "the decoder of this type is no longer one util.UnpackSome over its input ("+why+") and is not one of the decoders judged by another rule: its agreement with the encoder is undecided")
			}
			continue
		}
		pos := p.Pos(un.Pos())
		pps := runEncoder(p, pt.pack)
		// a tail that is decoded under a condition on a one-octet field (ConnRes: the endpoint follows only a zero
		// status): the decoder decodes it for exactly the field values for which the encoder writes it
		for _, u := range uitems {
			if u.desc != "tail" || u.call == nil {
				continue
			}
			var fld *types.Var
			var ld ssa.Value
			for _, f := range factsAt(u.call.Block()) {
				for _, pr := range [][2]ssa.Value{{f.X, f.Y}, {f.Y, f.X}} {
					if _, isK := constInt(pr[1]); !isK {
						continue
					}
					if lf := loadedField(pr[0]); lf != nil && recvPath(un, unOpAddr(pr[0])) != "" {
						if w, _, okw := typeWidth(lf.Type(), "amd64"); okw && w == 8 {
							fld, ld = lf, pr[0]
						}
					}
				}
			}
			if fld == nil {
				continue // unconditional tail: the item comparison below covers it
			}
			dec, okD := finSetAtRoot(ld, u.call.Block(), ld)
			if !okD {
				c.Fail(rule, tn+" tail decoded under the encoder's condition", p.InstrPos(u.call), "the condition under which the rest of the input is decoded is not a function of "+fld.Name()+" alone")
				continue
			}
			nTail++
			enc := finSet{}
			okE := true
			prefix := "r." + fld.Name() + "["
			for _, pp := range pps {
				if len(pp.notes) > 0 {
					continue
				}
				pitems, bad := packItems(pp.env, pp)
				if bad != "" {
					continue
				}
				writes := false
				for _, it := range pitems {
					if (it.kind == "nested" || it.kind == "field" || it.kind == "bytes") && strings.Contains(it.path, u.path) {
						writes = true
					}
				}
				// the values of the field on this encoder path
				vals := finSet{}
				for v := range vals {
					vals[v] = true
				}
				for _, cnd := range pp.conds {
					body := strings.TrimLeft(cnd, "+-")
					if !strings.HasPrefix(body, prefix) {
						continue
					}
					parts := strings.Split(body, " == ")
					if len(parts) != 2 {
						okE = false
						continue
					}
					k, err := strconv.ParseInt(strings.ReplaceAll(parts[1], " ", ""), 2, 64)
					if err != nil {
						okE = false
						continue
					}
					for v := range vals {
						if (int64(v) == k) != strings.HasPrefix(cnd, "+") {
							vals[v] = false
						}
					}
				}
				if writes {
					for v, in := range vals {
						if in {
							enc[v] = true
						}
					}
				}
			}
			diff := -1
			for v := 0; v < 256; v++ {
				if enc[v] != dec[v] {
					diff = v
					break
				}
			}
			c.Decide(okE && diff < 0, rule, tn+" tail decoded under the encoder's condition", p.InstrPos(u.call), "the decoder reads "+u.path+" for exactly the values of "+fld.Name()+" for which the encoder writes it", fmt.Sprintf("for %s = %d the encoder writes %s: %v, the decoder reads it: %v", fld.Name(), diff, u.path, diff >= 0 && enc[diff], diff >= 0 && dec[diff]))
		}
		for _, pp := range pps {
			if len(pp.notes) > 0 {
				continue
			}
			// decoders that stop early on a status (ConnRes) are compared on the common prefix
			pitems, bad := packItems(pp.env, pp)
			if bad != "" {
				c.Fail(rule, tn+" ["+pathLabel(pp)+"] encoder layout", pos, bad)
				continue
			}
			nCmp++
			key := tn + " [" + pathLabel(pp) + "]"
			var diffs []string
			n := len(pitems)
			if len(uitems) < n {
				n = len(uitems)
			}
			for i := 0; i < n; i++ {
				a, b := pitems[i], uitems[i]
				if b.desc == "tail" {
					// the decoder hands the rest to another decode function: every
					// remaining encoder item must belong to that destination
					seenDest := false
					for _, r := range pitems[i:] {
						if r.kind == "const" || (r.kind == "bytes" && strings.Contains(r.path, "local array")) {
							// literal constants behind the decoded part (e.g. the CRD of a connect response); in
							// front of it they would shift what the decoder reads
							if !seenDest {
								diffs = append(diffs, fmt.Sprintf("item %d: encoder writes %s in front of %s, the decoder reads %s at this offset", i, r, b.path, b.path))
							}
							continue
						}
						if !strings.Contains(r.path, b.path) {
							diffs = append(diffs, fmt.Sprintf("item %d: encoder writes %s where the decoder decodes %s", i, r, b.path))
						} else {
							seenDest = true
						}
					}
					n = len(pitems)
					break
				}
				if a.kind == "const" && b.kind == "field" {
					// the path condition pins the field to that constant
					pinned := false
					for _, cnd := range pp.conds {
						if strings.HasPrefix(cnd, "+"+b.path+"[") && strings.HasSuffix(cnd, fmt.Sprintf("== %08b", a.val)) {
							pinned = true
						}
					}
					if pinned {
						continue
					}
				}
				if !a.width.Equal(b.width) {
					// a nested item of symbolic size on both sides is compared by path only
					if !(a.kind == "nested" && b.kind == "nested") {
						diffs = append(diffs, fmt.Sprintf("item %d: encoder writes %s, decoder reads %s", i, a, b))
						break
					}
				}
				switch {
				case b.kind == "local":
					if a.kind == "const" && b.hasV && a.val != b.val {
						diffs = append(diffs, fmt.Sprintf("item %d: encoder writes constant %#x, decoder demands %#x", i, a.val, b.val))
					}
					if a.kind == "const" && b.hasAcc && a.val >= 0 && a.val < 256 && !b.accepted[a.val] {
						diffs = append(diffs, fmt.Sprintf("item %d: encoder writes constant %#x, with that value the decoder never succeeds", i, a.val))
					}
					if a.kind == "field" || a.kind == "nested" || a.kind == "bytes" {
						diffs = append(diffs, fmt.Sprintf("item %d: encoder writes %s but the decoder discards it", i, a))
					}
				case a.kind == "const":
					diffs = append(diffs, fmt.Sprintf("item %d: encoder writes constant %#x where the decoder reads %s", i, a.val, b))
				case a.kind == "mixed":
					// bit-packed octets are compared by C11 for the cEMI structures
				default:
					if normPath(a.path) != normPath(b.path) {
						diffs = append(diffs, fmt.Sprintf("item %d: encoder writes %s, decoder reads %s", i, a, b))
					}
				}
			}
			// trailing encoder items the decoder does not read must be constants
			for i := n; i < len(pitems); i++ {
				if pitems[i].kind != "const" && !(pitems[i].kind == "bytes" && strings.Contains(pitems[i].path, "local array")) {
					diffs = append(diffs, fmt.Sprintf("trailing item %d (%s) is written but never decoded", i, pitems[i]))
				}
			}
			for i := n; i < len(uitems); i++ {
				if uitems[i].desc == "tail" && len(pp.conds) > 0 {
					continue // status-dependent tail, absent on this encoder path
				}
				diffs = append(diffs, fmt.Sprintf("decoder reads item %d (%s) the encoder never writes on this path", i, uitems[i]))
			}
			c.Decide(len(diffs) == 0, rule, key, pos, fmt.Sprintf("%d encoder items and %d decoder items agree in order, width and destination", len(pitems), len(uitems)), strings.Join(diffs, "; "))
		}
	}
	c.Floor(rule, "Pack/Unpack pairs compared item by item", nCmp, 12)
	c.Floor(rule, "conditional tails compared with the encoder's condition", nTail, 1)
	// util.Unpack: the one-octet arms take data[0] behind len(data) >= 1; the byte-slice arm fills the whole
	// destination from the head of the input and fails exactly when the input is shorter than the destination
	if uf := p.Func("knx/util", "Unpack"); uf != nil && len(uf.Params) == 2 {
		in0 := uf.Params[0]
		nArm := 0
		instrsOf(uf, func(x ssa.Instruction) {
			ta, ok := x.(*ssa.TypeAssert)
			if !ok || ta.X != ssa.Value(uf.Params[1]) || !ta.CommaOk {
				return
			}
			var val ssa.Value
			for _, u := range usesOf(ta) {
				if ex, ok := u.(*ssa.Extract); ok && ex.Index == 0 {
					val = ex
				}
			}
			if val == nil {
				return
			}
			switch t := ta.AssertedType.(type) {
			case *types.Pointer:
				if primWidth(t.Elem()) != 1 {
					return
				}
				nArm++
				key := "util.Unpack arm " + t.String()
				okSt := storesFirstOctet(uf, in0, val, 0)
				okGuard := okSt
				c.Decide(okSt && okGuard, "C02.primitive", key+" takes the first octet", p.InstrPos(ta), "*output = data[0] behind len(data) >= 1", "the one-octet arm does not store data[0] behind a check that one octet is present")
			case *types.Slice:
				nArm++
				key := "util.Unpack arm []byte"
				var cp *ssa.Call
				for _, u := range usesOf(val) {
					if call, ok := u.(*ssa.Call); ok && builtinName(call) == "copy" && call.Common().Args[0] == val && call.Common().Args[1] == ssa.Value(in0) {
						cp = call
					}
				}
				okCp := cp != nil
				okGuard := false
				if cp != nil {
					// reached exactly when len(output) <= len(data)
					okGuard = anyFact(factsAt(cp.Block()), func(f Cmp) bool {
						lx, isX := stripAllConv(f.X).(*ssa.Call)
						ly, isY := stripAllConv(f.Y).(*ssa.Call)
						if !isX || !isY || builtinName(lx) != "len" || builtinName(ly) != "len" {
							return false
						}
						ox, oy := lx.Common().Args[0], ly.Common().Args[0]
						return (ox == val && oy == ssa.Value(in0) && f.Op == token.LEQ) || (ox == ssa.Value(in0) && oy == val && f.Op == token.GEQ)
					})
				}
				okRet := false
				if cp != nil {
					for _, r := range returnsOf(uf) {
						if len(r.Results) == 2 && stripAllConv(r.Results[0]) == ssa.Value(cp) && !p.returnMayBeNil(r, 1) == false {
							okRet = true
						}
					}
				}
				c.Decide(okCp && okGuard && okRet, "C02.primitive", key+" fills the destination from the head of the input", p.InstrPos(ta), "copy(output, data) exactly when len(output) <= len(data), count returned", "the byte-slice arm does not copy into the whole destination exactly when the input is long enough (an input of exactly the destination's length must be accepted)")
			}
		})
		c.Floor("C02.primitive", "one-octet and byte-slice arms of util.Unpack", nArm, 3)
	}
	// the frame header: Pack writes 06 10 service(2) total(2); UnpackHeader reads the same four items in that order
	// and succeeds for the two constants the encoder writes
	if uh := p.Func("knx/knxnet", "UnpackHeader"); uh != nil && len(uh.Params) == 3 {
		var us *ssa.Call
		instrsOf(uh, func(in ssa.Instruction) {
			if call, ok := in.(*ssa.Call); ok && callIs(call, modPath+"/knx/util", "", "UnpackSome") && call.Common().Args[0] == ssa.Value(uh.Params[0]) {
				us = call
			}
		})
		okShape := false
		why := "no util.UnpackSome over the input"
		if us != nil {
			items, opaque := ifaceArgs(us, true)
			why = "the items are not (octet, octet, *service, *total length)"
			if !opaque && len(items) == 4 {
				okShape = true
				why = ""
				want := []int64{6, 16}
				for i := 0; i < 2; i++ {
					mi, isMI := items[i].(*ssa.MakeInterface)
					var cell *ssa.Alloc
					if isMI {
						cell, _ = stripPtrConv(mi.X).(*ssa.Alloc)
					}
					if cell == nil {
						okShape, why = false, fmt.Sprintf("item %d is not decoded into a local octet", i)
						break
					}
					if w, _, okw := typeWidth(cell.Type().(*types.Pointer).Elem(), "amd64"); !okw || w != 8 {
						okShape, why = false, fmt.Sprintf("item %d is not one octet wide", i)
						break
					}
					var ld ssa.Value
					instrsOf(uh, func(x ssa.Instruction) {
						if u, isU := x.(*ssa.UnOp); isU && u.Op == token.MUL && u.X == ssa.Value(cell) && ld == nil {
							ld = u
						}
					})
					if ld == nil {
						continue // not validated: every value accepted
					}
					acc := false
					for _, r := range returnsOf(uh) {
						if len(r.Results) < 2 || !p.returnMayBeNil(r, 1) {
							continue
						}
						if set, okS := finSetAtRoot(ld, r.Block(), ld); !okS || set[want[i]] {
							acc = true
						}
					}
					if !acc {
						okShape, why = false, fmt.Sprintf("item %d: the encoder writes %d there, with that value the header decoder never succeeds", i, want[i])
					}
				}
				for i := 2; i < 4 && okShape; i++ {
					mi, isMI := items[i].(*ssa.MakeInterface)
					if !isMI || stripPtrConv(mi.X) != ssa.Value(uh.Params[i-1]) {
						okShape, why = false, fmt.Sprintf("item %d is not decoded into parameter %d", i, i-1)
						break
					}
					if pt, isP := mi.X.Type().(*types.Pointer); !isP || primWidth(pt.Elem()) != 2 {
						okShape, why = false, fmt.Sprintf("item %d is not two octets wide", i)
					}
				}
			}
		}
		if !okShape && us == nil {
			// a hand-written header decoder: interpreted
			if acc, outsOK, okI, whyI := headerByInterpretation(p, uh); okI {
				okShape = outsOK && acc[0][6] && acc[1][16]
				why = "interpreted: the decoder does not accept 06 10 or does not take service and total length from octets 2..5"
			} else {
				why = whyI
			}
		}
		c.Decide(okShape, "C02.layout", "knxnet.UnpackHeader reads 06 10 service total", p.Pos(uh.Pos()), "octet (accepts 6), octet (accepts 16), service identifier (2), total length (2)", why)
	} else {
		c.Fail("C02.layout", "knxnet.UnpackHeader", "", "not found")
	}
	checkOffsetLoopDecoders(c, p, "C02.tlv")
	// a decoder fills its receiver: with a value receiver it fills a copy and the caller's value stays empty
	nRecv := 0
	for _, nt := range p.allNamedTypes() {
		pth := nt.Obj().Pkg().Path()
		if pth != knxnetPath && pth != cemiPath {
			continue
		}
		for i := 0; i < nt.NumMethods(); i++ {
			m := nt.Method(i)
			sig, ok := m.Type().(*types.Signature)
			if !ok || m.Name() != "Unpack" || sig.Recv() == nil || sig.Params().Len() != 1 || !isByteSlice(sig.Params().At(0).Type()) {
				continue
			}
			nRecv++
			_, isPtr := sig.Recv().Type().(*types.Pointer)
			c.Decide(isPtr, "C02.layout", typeName(nt)+".Unpack has a pointer receiver", p.Pos(m.Pos()), "decodes into the caller's value", "Unpack has a value receiver: it decodes into a copy, the caller's value keeps what it held (nothing, for a fresh one)")
		}
	}
	c.Floor("C02.layout", "Unpack methods of frame types", nRecv, 20)
	// byte-copy types: Pack is copy(buffer, X), Unpack copies the whole input into the same X
	nCopy := 0
	for _, pt := range declaredPackTypes(p) {
		un := methodOf(p, pt.nt, "Unpack")
		if un == nil || len(un.Blocks) == 0 {
			continue
		}
		tn := typeName(pt.nt)
		pps := runEncoder(p, pt.pack)
		if len(pps) != 1 || len(pps[0].writes) != 1 || pps[0].writes[0].kind != "seg" {
			continue
		}
		w := pps[0].writes[0]
		if o, ok := w.off.IsConst(); !ok || o != 0 {
			continue
		}
		nCopy++
		// decoder: every successful return reports uint(copy(dst, data)) with dst stored into the same field / receiver
		in := inputParam(un)
		okU, why := false, "no copy of the whole input found"
		instrsOf(un, func(x ssa.Instruction) {
			call, isC := x.(*ssa.Call)
			if !isC || builtinName(call) != "copy" || call.Common().Args[1] != ssa.Value(in) {
				return
			}
			dst := call.Common().Args[0]
			// dst has room for the whole input: make([]byte, len(data)) on the path where the old buffer is shorter
			room := false
			check := func(v ssa.Value) bool {
				if mk, isMk := v.(*ssa.MakeSlice); isMk {
					if lc, isL := stripAllConv(mk.Len).(*ssa.Call); isL && builtinName(lc) == "len" && lc.Common().Args[0] == ssa.Value(in) {
						return true
					}
				}
				return false
			}
			if check(dst) {
				room = true
			}
			if ph, isPhi := dst.(*ssa.Phi); isPhi {
				room = true
				for i, e := range ph.Edges {
					if check(e) {
						continue
					}
					// the kept buffer is at least as long as the input on this edge
					pred := ph.Block().Preds[i]
					fs := append(factsAt(pred), edgeFacts(pred, ph.Block())...)
					if !anyFact(fs, func(f Cmp) bool {
						lx, isLx := stripAllConv(f.X).(*ssa.Call)
						ly, isLy := stripAllConv(f.Y).(*ssa.Call)
						if !isLx || !isLy || builtinName(lx) != "len" || builtinName(ly) != "len" {
							return false
						}
						ox, oy := lx.Common().Args[0], ly.Common().Args[0]
						return (ox == e && oy == ssa.Value(in) && (f.Op == token.GEQ || f.Op == token.GTR)) || (ox == ssa.Value(in) && oy == e && (f.Op == token.LEQ || f.Op == token.LSS))
					}) {
						room = false
					}
				}
			}
			if f := loadedField(dst); f != nil {
				// copy(body.Data, data) after body.Data was (re)allocated when too short
				room = false
				instrsOf(un, func(y ssa.Instruction) {
					st, isSt := y.(*ssa.Store)
					if !isSt || fieldOfAddr(st.Addr) != f || !check(st.Val) {
						return
					}
					// ... and that happens whenever the old one is shorter than the input (or always)
					lenOf := func(v ssa.Value, want func(ssa.Value) bool) bool {
						lc, isL := stripAllConv(v).(*ssa.Call)
						return isL && builtinName(lc) == "len" && want(lc.Common().Args[0])
					}
					isFld := func(v ssa.Value) bool { return loadedField(v) == f }
					isIn := func(v ssa.Value) bool { return v == ssa.Value(in) }
					shorter := anyFact(factsAt(st.Block()), func(fc Cmp) bool {
						switch fc.Op {
						case token.LSS, token.LEQ:
							return lenOf(fc.X, isFld) && lenOf(fc.Y, isIn)
						case token.GTR, token.GEQ:
							return lenOf(fc.X, isIn) && lenOf(fc.Y, isFld)
						}
						return false
					})
					if shorter || st.Block() == un.Blocks[0] {
						room = true
					}
				})
			}
			if room {
				okU, why = true, ""
			} else {
				why = "the destination of the copy may be shorter than the input: the tail of the payload is dropped"
			}
			// the copy lands in the decoded value: either it was made into the value's own field, or the filled
			// slice is stored into the receiver on every path
			if room && loadedField(dst) == nil {
				isKeep := func(y ssa.Instruction) bool {
					st, isSt := y.(*ssa.Store)
					if !isSt || len(un.Params) == 0 {
						return false
					}
					v := st.Val
					for {
						if ct, isCT := v.(*ssa.ChangeType); isCT {
							v = ct.X
							continue
						}
						break
					}
					return v == dst && (st.Addr == ssa.Value(un.Params[0]) || fieldOfAddr(st.Addr) != nil)
				}
				mn, _ := pathCountAssuming(un.Blocks[0], isKeep, nil, nil)
				if mn < 1 {
					okU, why = false, "the slice the input was copied into is not stored into the decoded value on every path: the caller's value stays what it was"
				}
			}
			// and the count reported is that of the copy
			for _, r := range returnsOf(un) {
				if len(r.Results) < 1 || !instrDominates(call, r) {
					continue
				}
				if stripAllConv(r.Results[0]) != ssa.Value(call) {
					okU, why = false, "the consumed length is not the number of bytes copied"
				}
			}
		})
		c.Decide(okU, rule, tn+" byte-copy decoder takes the whole input", p.Pos(un.Pos()), "copy(dst, data) with len(dst) >= len(data)", why)
	}
	c.Floor(rule, "byte-copy Pack/Unpack pairs", nCopy, 4)
	// the decoder can only accept "the whole encoding" if every encoder writes
	// exactly the Size() it reports (the contract C15 proves; re-judged here
	// because a Size/Pack disagreement shifts every later field on decode)
	for _, pt := range declaredPackTypes(p) {
		sps, pps := runEncoder(p, pt.size), runEncoder(p, pt.pack)
		for _, pp := range pps {
			for _, sp := range sps {
				judgePair(c, p, "C02.contract", typeName(pt.nt), p.Pos(pt.pack.Pos()), pp, sp)
			}
		}
	}
	c.Note("Pack/Unpack layout: %d path comparisons; %d pairs with another decoder shape are covered by C11 (cEMI) / C01 (bounds) only: %s", nCmp, nSkip, strings.Join(skipped, "; "))

	// primitive codecs are big-endian inverses: encoder arms in C15.generic, decoders here
	for _, pr := range []struct {
		name string
		w    int
	}{{"unpackUInt16", 2}, {"unpackUInt32", 4}, {"unpackUInt64", 8}} {
		f := p.Func("knx/util", pr.name)
		if f == nil {
			c.Fail("C02.primitive", "util."+pr.name, "", "not found")
			continue
		}
		var got BV
		instrsOf(f, func(in ssa.Instruction) {
			if st, ok := in.(*ssa.Store); ok && st.Addr == ssa.Value(f.Params[1]) {
				ev := &BitEval{P: p, Env: map[ssa.Value]BV{}}
				if alts := ev.Eval(st.Val); len(alts) == 1 {
					got = alts[0].V
				}
			}
		})
		var spec []string
		for i := 0; i < pr.w; i++ {
			spec = append(spec, fmt.Sprintf("data[%d][7..0]", i))
		}
		want := wantBits(strings.Join(spec, " "))
		g := "?"
		if got != nil {
			g = got.String()
		}
		c.Decide(got != nil && got.Equal(want), "C02.primitive", "util."+pr.name+" inverts the big-endian encoder", p.Pos(f.Pos()), "= "+want.String(), "decodes ["+g+"]; util.Pack writes the most significant byte first")
	}
	// the string codec is ISO 8859-1 on both sides
	if g := p.Global("knx/util", "stringCharmap"); g != nil {
		ok := false
		for _, fn := range p.AllFuncs {
			instrsOf(fn, func(in ssa.Instruction) {
				if st, isSt := in.(*ssa.Store); isSt && st.Addr == ssa.Value(g) {
					if u, isU := st.Val.(*ssa.UnOp); isU && u.Op == token.MUL {
						if src, isG := u.X.(*ssa.Global); isG && src.Name() == "ISO8859_1" && src.Pkg.Pkg.Path() == "golang.org/x/text/encoding/charmap" {
							ok = true
						}
					}
				}
			})
		}
		c.Decide(ok, "C02.primitive", "device names are ISO 8859-1", p.Pos(g.Pos()), "stringCharmap = charmap.ISO8859_1", "the string codec is not ISO 8859-1: Latin-1 names the KNXnet/IP specification allows fail to encode (and encode as an empty name, the error being ignored)")
	} else {
		c.Fail("C02.primitive", "util.stringCharmap", "", "not found")
	}
	// every string the decoder hands out went through the charmap decoder - or consists of octets below 0x80
	// only (identical in ISO 8859-1 and UTF-8), established by a scan whose continuing edge admits no other octet
	if us := p.Func("knx/util", "UnpackString"); us != nil {
		var outP *ssa.Parameter
		for _, prm := range us.Params {
			if pt, ok := prm.Type().(*types.Pointer); ok {
				if b, ok := pt.Elem().Underlying().(*types.Basic); ok && b.Kind() == types.String {
					outP = prm
				}
			}
		}
		nSt := 0
		instrsOf(us, func(in ssa.Instruction) {
			st, ok := in.(*ssa.Store)
			if !ok || outP == nil || st.Addr != ssa.Value(outP) {
				return
			}
			nSt++
			cv, isCv := st.Val.(*ssa.Convert)
			decoded := false
			if isCv {
				if ex, ok := cv.X.(*ssa.Extract); ok {
					if call, ok := ex.Tuple.(*ssa.Call); ok {
						if o := calleeObj(call); o != nil && o.Name() == "Bytes" {
							decoded = true
						}
					}
				}
			}
			if decoded {
				c.OK("C02.primitive", "util.UnpackString result comes from the charmap decoder", p.InstrPos(st), "string(decoder.Bytes(...))")
				return
			}
			// a bypass: admissible only behind a scan of the octets that lets nothing above 0x7F continue
			okScan := false
			worst := -1
			for _, lp := range loopsOf(us) {
				if !lp.Header.Dominates(st.Block()) {
					continue
				}
				for b := range lp.Body {
					iff := ifOf(b)
					if iff == nil || len(b.Succs) != 2 {
						continue
					}
					for si, sc := range b.Succs {
						if !lp.Body[sc] {
							continue // this edge leaves the loop
						}
						cm, _ := cmpOf(iff.Cond, si == 0)
						for _, side := range []ssa.Value{cm.X, cm.Y} {
							w, _, okw := typeWidth(side.Type(), "amd64")
							if !okw || w != 8 {
								continue
							}
							if _, isK := side.(*ssa.Const); isK {
								continue
							}
							// octets for which the scan continues on this edge
							okAll := true
							for x := int64(0); x < 256; x++ {
								v, known := finExpr(iff.Cond, side, x, nil, 0)
								if !known || v.Kind() != constant.Bool {
									okAll = false
									break
								}
								if constant.BoolVal(v) == (si == 0) && x > 0x7F {
									okAll = false
									if int(x) > worst {
										worst = int(x)
									}
								}
							}
							if okAll {
								okScan = true
							}
						}
					}
				}
			}
			c.Decide(okScan && worst < 0, "C02.primitive", "util.UnpackString result comes from the charmap decoder", p.InstrPos(st), "plain-ASCII fast path behind a scan that admits octets below 0x80 only", fmt.Sprintf("a string is handed out without passing the ISO 8859-1 decoder and the scan before it lets the octet %#x through: octets above 0x7F are not valid UTF-8 on their own, the name comes back as an invalid string", worst))
		})
		c.Floor("C02.primitive", "stores of the decoded string in util.UnpackString", nSt, 1)
		// what is decoded are the first `length` octets of the field, nothing behind them
		var lenP *ssa.Parameter
		for _, prm := range us.Params {
			if bt, ok := prm.Type().Underlying().(*types.Basic); ok && bt.Info()&types.IsInteger != 0 {
				lenP = prm
			}
		}
		nDec := 0
		instrsOf(us, func(in ssa.Instruction) {
			call, ok := in.(*ssa.Call)
			if !ok || calleeObj(call) == nil || calleeObj(call).Name() != "Bytes" || len(call.Common().Args) == 0 {
				return
			}
			nDec++
			v := call.Common().Args[len(call.Common().Args)-1]
			okCut := false
			for d := 0; d < 6; d++ {
				switch x := v.(type) {
				case *ssa.Call:
					if o := calleeObj(x); o != nil && (o.Name() == "TrimRight" || o.Name() == "TrimRightFunc") {
						v = x.Common().Args[0]
						continue
					}
				case *ssa.Slice:
					if _, isP := x.X.(*ssa.Parameter); isP && x.Low == nil && x.High != nil && lenP != nil && stripAllConv(x.High) == ssa.Value(lenP) {
						okCut = true
					}
				}
				break
			}
			c.Decide(okCut, "C02.primitive", "util.UnpackString decodes exactly the field", p.InstrPos(call), "decoder input is buffer[:length] (trailing NULs trimmed)", "the string decoder is not handed exactly the first `length` octets of the buffer: octets of the following field become part of the name")
		})
		c.Floor("C02.primitive", "decoder calls in util.UnpackString", nDec, 1)
	}
}

// unOpAddr returns the address a load reads from (or the value itself).
func unOpAddr(v ssa.Value) ssa.Value {
	if u, ok := v.(*ssa.UnOp); ok && u.Op == token.MUL {
		return u.X
	}
	return v
}

// checkOverrides: a type that declares its own Pack (or Size) while its Unpack
// comes from an embedded field (or the other way round) pairs an encoder and
// a decoder written at different levels.  The override is judged against the
// method it hides: evaluated on the same receiver it must write the same
// bytes (a plain forwarding wrapper does); anything else is reported, since
// the decoder was written for the hidden encoder.
func checkOverrides(c *Check, p *Program, rule string) {
	n := 0
	for _, nt := range p.allNamedTypes() {
		path := nt.Obj().Pkg().Path()
		if path != knxnetPath && path != cemiPath {
			continue
		}
		st, ok := nt.Underlying().(*types.Struct)
		if !ok {
			continue
		}
		declared := map[string]*ssa.Function{}
		for i := 0; i < nt.NumMethods(); i++ {
			m := nt.Method(i)
			if f := p.SSA.FuncValue(m); f != nil && len(f.Blocks) > 0 {
				declared[m.Name()] = f
			}
		}
		ms := types.NewMethodSet(types.NewPointer(nt))
		promotedFrom := func(name string) (fieldPath string, fn *ssa.Function) {
			sel := ms.Lookup(nt.Obj().Pkg(), name)
			if sel == nil || len(sel.Index()) < 2 {
				return "", nil
			}
			t := types.Type(nt)
			fp := ""
			for _, i := range sel.Index()[:len(sel.Index())-1] {
				s, ok := deref(t).Underlying().(*types.Struct)
				if !ok {
					return "", nil
				}
				fp += "." + s.Field(i).Name()
				t = s.Field(i).Type()
			}
			f, _ := sel.Obj().(*types.Func)
			if f == nil {
				return "", nil
			}
			return fp, p.SSA.FuncValue(f)
		}
		_ = st
		for _, pair := range [][2]string{{"Pack", "Unpack"}, {"Unpack", "Pack"}} {
			own, other := declared[pair[0]], pair[1]
			if own == nil || declared[other] != nil {
				continue
			}
			fp, _ := promotedFrom(other)
			if fp == "" {
				continue // the counterpart does not exist at all (one-directional service) or is declared here too
			}
			n++
			tn := typeName(nt)
			pos := p.Pos(own.Pos())
			if pair[0] != "Pack" {
				c.Fail(rule, tn+" overrides Unpack but inherits Pack", pos, "decoder and encoder of "+tn+" are written at different levels (Pack comes from the embedded"+fp+"): their agreement is not established")
				continue
			}
			// the hidden Pack of the embedded field, evaluated on r.<field>
			var hidden *ssa.Function
			{
				t := types.Type(nt)
				for _, name := range strings.Split(strings.TrimPrefix(fp, "."), ".") {
					s, ok := deref(t).Underlying().(*types.Struct)
					if !ok {
						break
					}
					for i := 0; i < s.NumFields(); i++ {
						if s.Field(i).Name() == name {
							t = s.Field(i).Type()
						}
					}
				}
				if sel := types.NewMethodSet(types.NewPointer(t)).Lookup(nt.Obj().Pkg(), "Pack"); sel != nil {
					if f, ok := sel.Obj().(*types.Func); ok {
						hidden = p.SSA.FuncValue(f)
					}
				}
			}
			if hidden == nil {
				c.Fail(rule, tn+" Pack override", pos, "the Pack it hides cannot be resolved")
				continue
			}
			sig := func(fn *ssa.Function, recv string) ([]string, bool) {
				li := &layoutInterp{p: p}
				args := []AV{li.valueOfPath(recv, fn.Params[0].Type()), avSlice{region: "buf", off: linConst(0), len: nil, name: "buffer"}}
				var out []string
				for _, pp := range li.run(fn, args, nil) {
					if len(pp.notes) > 0 {
						return nil, false
					}
					var ws []string
					for _, w := range pp.writes {
						ws = append(ws, fmt.Sprintf("%s+%s:%s:%s:%s", w.off, w.n, w.kind, w.bv, w.src))
					}
					sort.Strings(ws)
					out = append(out, strings.Join(ws, "|"))
				}
				sort.Strings(out)
				return out, true
			}
			// a plain forwarding wrapper: one nested write of the embedded value at offset 0
			{
				li := &layoutInterp{p: p}
				pps := li.run(own, []AV{li.valueOfPath("r", own.Params[0].Type()), avSlice{region: "buf", off: linConst(0), len: nil, name: "buffer"}}, nil)
				if len(pps) == 1 && len(pps[0].notes) == 0 && len(pps[0].effect) == 0 && len(pps[0].writes) == 1 {
					w := pps[0].writes[0]
					if w.kind == "nested" && w.off != nil && w.off.String() == "0" && strings.TrimPrefix(w.src, "&") == "r"+fp {
						c.OK(rule, tn+" Pack override writes what the hidden Pack writes", pos, "forwards to "+FuncName(hidden)+" on the embedded value")
						continue
					}
				}
			}
			a, okA := sig(own, "r")
			b, okB := sig(hidden, "r"+fp)
			same := okA && okB && len(a) == len(b)
			for i := range a {
				if same && a[i] != b[i] {
					same = false
				}
			}
			c.Decide(same, rule, tn+" Pack override writes what the hidden Pack writes", pos, "byte for byte the same as "+FuncName(hidden)+" on the embedded value", tn+" declares its own Pack but decodes with the Unpack promoted from the embedded"+fp+": the override does not write the same bytes as the Pack it hides, so decoding an encoded value does not give the value back")
		}
	}
	c.Note("types overriding one direction of an embedded codec: %d", n)
}

// storesFirstOctet: fn stores data[0] (through width-preserving conversions)
// into *dst behind len(data) >= 1 - directly, through a helper that is handed
// (data, dst), or through a local that receives the octet that way.
func storesFirstOctet(fn *ssa.Function, data ssa.Value, dst ssa.Value, depth int) bool {
	if depth > 3 {
		return false
	}
	found := false
	instrsOf(fn, func(in ssa.Instruction) {
		switch x := in.(type) {
		case *ssa.Store:
			if x.Addr != dst {
				return
			}
			v := stripAllConv(x.Val)
			ld, ok := v.(*ssa.UnOp)
			if !ok || ld.Op != token.MUL {
				return
			}
			if ia, ok := ld.X.(*ssa.IndexAddr); ok && ia.X == data {
				if k, isK := constInt(ia.Index); isK && k == 0 {
					guard := anyFact(factsAt(x.Block()), func(f Cmp) bool {
						lc, isL := stripAllConv(f.X).(*ssa.Call)
						k, isK := constInt(f.Y)
						return isL && isK && builtinName(lc) == "len" && lc.Common().Args[0] == data && ((f.Op == token.GEQ && k == 1) || (f.Op == token.GTR && k == 0))
					})
					if guard {
						found = true
					}
				}
				return
			}
			if cell, ok := ld.X.(*ssa.Alloc); ok && storesFirstOctet(fn, data, cell, depth+1) {
				found = true
			}
		case *ssa.Call:
			callee := x.Common().StaticCallee()
			if callee == nil || len(callee.Blocks) == 0 || len(x.Common().Args) != 2 || len(callee.Params) != 2 {
				return
			}
			if x.Common().Args[0] == data && x.Common().Args[1] == dst && storesFirstOctet(callee, callee.Params[0], callee.Params[1], depth+1) {
				found = true
			}
		}
	})
	return found
}
