package main

import (
	"fmt"
	"go/token"
	"go/types"
	"math"
	"strings"

	"golang.org/x/tools/go/ssa"
)

func init() { register("C12", "other", checkC12) }

// boolCallFact: the fact says a call of fn (a predicate method) returned want.
func boolCallFact(c Cmp, want bool, fn *ssa.Function) (*ssa.Call, bool) {
	var found *ssa.Call
	ok := cmpIsBool(c, want, func(v ssa.Value) bool {
		call, isC := v.(*ssa.Call)
		if isC && call.Common().StaticCallee() == fn {
			found = call
			return true
		}
		return false
	})
	return found, ok
}

// acceptInterval computes, for a predicate function of one unsigned integer
// parameter whose result is a comparison of (parameter [>> s]) with a
// constant (or an ||-chain of such), the set of accepted parameter values as
// one interval; ok=false if the shape is not understood or not contiguous.
func acceptInterval(fn *ssa.Function) (lo, hi int64, ok bool) {
	// exact powerset evaluation for 8-bit predicates (any shape: comparison, switch, ||-chain, mask test)
	if set, okS := acceptSet8(fn); okS {
		lo, hi = -1, -1
		n := 0
		for i, b := range set {
			if b {
				if lo < 0 {
					lo = int64(i)
				}
				hi = int64(i)
				n++
			}
		}
		if n == 0 {
			return 1, 0, true
		}
		if int64(n) != hi-lo+1 {
			return lo, hi, false // not contiguous
		}
		return lo, hi, true
	}
	if len(fn.Params) != 1 {
		return 0, 0, false
	}
	prm := fn.Params[0]
	w, _, okw := typeWidth(prm.Type(), "")
	if !okw {
		return 0, 0, false
	}
	max := int64(1)<<uint(w) - 1
	var cmpIv func(v ssa.Value) (int64, int64, bool)
	cmpIv = func(v ssa.Value) (int64, int64, bool) {
		bo, isB := v.(*ssa.BinOp)
		if !isB {
			return 0, 0, false
		}
		x, y, op := bo.X, bo.Y, bo.Op
		if _, isK := constInt(x); isK {
			x, y, op = y, x, swapOp(op)
		}
		k, isK := constInt(y)
		if !isK {
			return 0, 0, false
		}
		shift := uint(0)
		x = stripAllConv(x)
		if sh, isSh := x.(*ssa.BinOp); isSh && sh.Op == token.SHR {
			s, okS := constInt(sh.Y)
			if !okS {
				return 0, 0, false
			}
			shift = uint(s)
			x = stripAllConv(sh.X)
		}
		if x != ssa.Value(prm) {
			return 0, 0, false
		}
		// (p >> shift) op k
		var l, h int64
		switch op {
		case token.LSS:
			l, h = 0, k-1
		case token.LEQ:
			l, h = 0, k
		case token.GTR:
			l, h = k+1, max>>shift
		case token.GEQ:
			l, h = k, max>>shift
		case token.EQL:
			l, h = k, k
		default:
			return 0, 0, false
		}
		if l < 0 {
			l = 0
		}
		if h > max>>shift {
			h = max >> shift
		}
		if l > h {
			return 1, 0, true // empty
		}
		return l << shift, (h+1)<<shift - 1, true
	}
	rets := returnsOf(fn)
	if len(rets) != 1 || len(rets[0].Results) != 1 {
		return 0, 0, false
	}
	v := rets[0].Results[0]
	if l, h, ok := cmpIv(v); ok {
		return l, h, true
	}
	// p == a || p == b || ... : phi of true constants on the taken edges and the last comparison
	if ph, isPhi := v.(*ssa.Phi); isPhi {
		lo, hi = math.MaxInt64, math.MinInt64
		for i, e := range ph.Edges {
			var l, h int64
			var okE bool
			if k, isK := e.(*ssa.Const); isK && k.Value != nil && k.Value.String() == "true" {
				pred := ph.Block().Preds[i]
				iff := ifOf(pred)
				if iff == nil {
					return 0, 0, false
				}
				l, h, okE = cmpIv(iff.Cond)
			} else {
				l, h, okE = cmpIv(e)
			}
			if !okE {
				return 0, 0, false
			}
			if l < lo {
				lo = l
			}
			if h > hi {
				hi = h
			}
		}
		// contiguity is not established for unions of disjoint equalities: demand adjacency count
		n := int64(0)
		for i, e := range ph.Edges {
			var l, h int64
			if k, isK := e.(*ssa.Const); isK && k.Value != nil {
				l, h, _ = cmpIv(ifOf(ph.Block().Preds[i]).Cond)
			} else {
				l, h, _ = cmpIv(e)
			}
			n += h - l + 1
		}
		if n != hi-lo+1 {
			return 0, 0, false
		}
		return lo, hi, true
	}
	return 0, 0, false
}

func checkC12(c *Check, p *Program) {
	c.Technique = "def-use of the frame fields, bit-provenance evaluation of the frame template and flag helpers, interval of the group-command predicate, dominating-edge facts (type switches, predicate calls), send census and path counting on the SSA of the group layer"
	c.Explanation = "Decides the mapping in both directions structurally. Outbound: the function that builds an LData from a GroupEvent starts from the template variable, whose initialiser evaluates (bit provenance with constant arguments) to Control1 = NoRepeat|NoSysBroadcast|WantAck|priority low (0x3E) and Control2 = group-address flag | hop count 6 (0xE0) and which nobody else writes; it stores Data = &AppData{Command: APCI(event.Command), Data: event.Data} (no numbered/sequence field), Source = event.Source, Destination = uint16(event.Destination), and sets the standard-frame flag by `Control1 | Control1StdFrame` exactly on the edge len(event.Data) <= 15; the tunnel wrapper sends &LDataReq{that frame}, the router wrapper &LDataInd{that frame}, each through exactly one call of the client's Send. Inbound: the forwarder's single send on the event channel is dominated by msg.(*LDataInd) ok, Control2.IsGroupAddr() true (= bit 7 of the indication's Control2), Data.(*AppData) ok, Command.IsGroupCommand() true (accepting exactly APCI 0..2) and lies on every path through those edges; the event's fields are app.Command, ind.Source, GroupAddr(ind.Destination), app.Data; every other message leads back to the receive; the event channel is closed exactly once, after the range over the client's Inbound() ends; constructors wire go forwarder(client.Inbound(), events). The byte-level part of the sentence (6-bit first byte, empty payload) is C02/C11/C15's layout of AppData. Conversely every dominating condition on the received frame in front of the send is one of those four: nothing else decides whether an indication surfaces."
	c.Trusted = []string{"go/types, go/ssa", "kxcheck bit provenance, dominance and path counting"}
	c.NotDecided = []string{"the end-to-end run through two live clients (a consequence of the pieces, not re-checked as a run)"}

	ldReq, ldInd := p.Named("knx/cemi", "LDataReq"), p.Named("knx/cemi", "LDataInd")
	ldata := p.Named("knx/cemi", "LData")
	gev := p.Named("knx", "GroupEvent")
	if ldReq == nil || ldInd == nil || ldata == nil || gev == nil {
		c.Fail("C12.anchor", "types LData/LDataReq/LDataInd/GroupEvent", "", "not found")
		return
	}
	fC2 := p.Field("knx/cemi", "LData", "Control2")
	fSrc, fDst, fData := p.Field("knx/cemi", "LData", "Source"), p.Field("knx/cemi", "LData", "Destination"), p.Field("knx/cemi", "LData", "Data")
	eCmd, eSrc, eDst, eData := p.Field("knx", "GroupEvent", "Command"), p.Field("knx", "GroupEvent", "Source"), p.Field("knx", "GroupEvent", "Destination"), p.Field("knx", "GroupEvent", "Data")
	aCmd, aData := p.Field("knx/cemi", "AppData", "Command"), p.Field("knx/cemi", "AppData", "Data")

	// ---- outbound builder: func(GroupEvent) cemi.LData
	var builder *ssa.Function
	for _, fn := range p.FuncsIn("knx") {
		if fn.Parent() == nil && len(fn.Params) == 1 && types.Identical(fn.Params[0].Type(), gev) && fn.Signature.Results().Len() == 1 && types.Identical(fn.Signature.Results().At(0).Type(), ldata) {
			builder = fn
		}
	}
	if builder == nil {
		c.Fail("C12.out", "builder func(GroupEvent) cemi.LData", "", "not found")
		return
	}
	bn := FuncName(builder)
	c.Analysed("functions", bn)
	// the frame the builder returns, per path: evaluated by the layout interpreter (package-level
	// template variables written only by their initialiser evaluate to constants)
	stdC, _ := p.Pkg("knx/cemi").Scope().Lookup("Control1StdFrame").(*types.Const)
	stdV := int64(-1)
	if stdC != nil {
		stdV, _ = constInt(ssa.NewConst(stdC.Val(), stdC.Type()))
	}
	c.Decide(stdV == 0x80, "C12.out", "Control1StdFrame is bit 7", "", "0x80", fmt.Sprintf("%#x", stdV))
	li := &layoutInterp{p: p}
	bpaths := li.run(builder, []AV{li.valueOfPath("ev", builder.Params[0].Type())}, nil)
	bpos := p.Pos(builder.Pos())
	c.Decide(len(bpaths) >= 2, "C12.out", bn+" evaluates on every path", bpos, fmt.Sprintf("%d paths", len(bpaths)), fmt.Sprintf("%d complete path(s) through the builder: the frame cannot depend on the payload length", len(bpaths)))
	sawShort, sawLong := false, false
	for _, pp := range bpaths {
		lenIv := pp.env.get("len(ev.Data)")
		side := ""
		switch {
		case lenIv.hi <= 15:
			side, sawShort = "payload <= 15", true
		case lenIv.lo >= 16:
			side, sawLong = "payload > 15", true
		default:
			c.Fail("C12.out", bn+" distinguishes payloads at 15 bytes", bpos, fmt.Sprintf("a path covers len(event.Data) in [%s,%s]: the standard-frame decision is not taken exactly at <= 15", ival(lenIv.lo), ival(lenIv.hi)))
			continue
		}
		key := bn + " [" + side + "]"
		if len(pp.notes) > 0 || len(pp.effect) > 0 {
			c.Fail("C12.out", key+" understood", bpos, "the builder contains something the evaluation does not model or has a side effect: "+strings.Join(append(append([]string{}, pp.notes...), pp.effect...), "; "))
			continue
		}
		ag, isAgg := pp.ret.(avAgg)
		if !isAgg {
			c.Fail("C12.out", key+" returns a frame value", bpos, "the result does not evaluate to a struct value field by field ("+describeAV(pp.ret)+")")
			continue
		}
		fieldConst := func(name string) (uint64, bool) {
			v, ok := ag.elems["."+name].(avInt)
			if !ok {
				return 0, false
			}
			return v.bv.Const()
		}
		wantC1 := uint64(0x3E)
		if side == "payload <= 15" {
			wantC1 |= 0x80
		}
		k1, ok1 := fieldConst("Control1")
		c.Decide(ok1 && k1 == wantC1, "C12.out", key+" Control1", bpos, fmt.Sprintf("%#x: no-repeat | no-system-broadcast | want-ack | priority low, standard-frame bit %d", wantC1, wantC1>>7), fmt.Sprintf("Control1 evaluates to %#x (constant=%v), expected %#x (flags 0x20|0x10|0x02, priority low = 3 in bits 3..2, standard-frame bit set exactly for payloads of at most 15 bytes)", k1, ok1, wantC1))
		k2, ok2 := fieldConst("Control2")
		c.Decide(ok2 && k2 == 0xE0, "C12.out", key+" Control2", bpos, "0xE0: group address | hop count 6", fmt.Sprintf("Control2 evaluates to %#x (constant=%v), expected 0xE0 (bit 7 set, hop count 6 in bits 6..4)", k2, ok2))
		okInfo := true
		if iv, has := ag.elems[".Info"]; has {
			sl, isSl := iv.(avSlice)
			okInfo = isSl && sl.len != nil
			if okInfo {
				n, isK := sl.len.IsConst()
				okInfo = isK && n == 0
			}
		}
		c.Decide(okInfo, "C12.out", key+" no additional info", bpos, "Info is empty", "the frame carries additional info "+describeAV(ag.elems[".Info"]))
		src, _ := ag.elems[".Source"].(avInt)
		c.Decide(src.bv.Equal(bvSrc("ev.Source", 16)), "C12.out", key+" Source = event.Source", bpos, "copied bit for bit", "the frame's Source is "+describeAV(ag.elems[".Source"])+", not event.Source")
		dst, _ := ag.elems[".Destination"].(avInt)
		c.Decide(dst.bv.Equal(bvSrc("ev.Destination", 16)), "C12.out", key+" Destination = uint16(event.Destination)", bpos, "copied bit for bit", "the frame's Destination is "+describeAV(ag.elems[".Destination"])+", not event.Destination")
		// Data = &AppData{Command: APCI(event.Command), Data: event.Data}
		okData, why := false, "the frame's Data is "+describeAV(ag.elems[".Data"])
		if ifc, isI := ag.elems[".Data"].(avIface); isI && ifc.typ != nil && isPtrToNamed(ifc.typ, cemiPath, "AppData") {
			if ad, isA := ifc.inner.(avAddr); isA && ad.cell != "" {
				get := func(f string) AV {
					if v, ok := pp.mem[ad.cell+"."+f]; ok {
						return v
					}
					if whole, ok := pp.mem[ad.cell].(avAgg); ok {
						return whole.elems["."+f]
					}
					return nil
				}
				cmd, _ := get("Command").(avInt)
				dat, _ := get("Data").(avSlice)
				okCmd := cmd.bv.Equal(bvSrc("ev.Command", 8))
				okDat := dat.region == "f:ev.Data" && dat.off != nil && dat.len != nil && dat.off.String() == "0" && dat.len.String() == "len(ev.Data)"
				okNum := true
				if nb, has := get("Numbered").(avBool); has && !(nb.known && !nb.val) {
					okNum = false
				}
				if sq, has := get("SeqNumber").(avInt); has {
					if k, isK := sq.bv.Const(); !isK || k != 0 {
						okNum = false
					}
				}
				okData = okCmd && okDat && okNum
				why = fmt.Sprintf("the application data unit is not {Command: APCI(event.Command), Data: event.Data, unnumbered}: command ok=%v, data ok=%v, unnumbered=%v", okCmd, okDat, okNum)
			}
		}
		c.Decide(okData, "C12.out", key+" Data = &AppData{Command: APCI(event.Command), Data: event.Data}", bpos, "fresh application data unit with the event's command and payload", why)
	}
	c.Decide(sawShort && sawLong, "C12.out", bn+" both payload classes occur", bpos, "a path for payloads of at most 15 bytes and one for longer payloads", fmt.Sprintf("paths for short payloads: %v, for long payloads: %v", sawShort, sawLong))
	// wrappers
	nWrap := 0
	for _, w := range []struct{ recv, wrapT, client string }{{"GroupTunnel", "LDataReq", "Tunnel"}, {"GroupRouter", "LDataInd", "Router"}} {
		fn := p.Method("knx", w.recv, "Send")
		if fn == nil {
			c.Fail("C12.out", "knx."+w.recv+".Send", "", "method not found")
			continue
		}
		nWrap++
		c.Analysed("functions", FuncName(fn))
		inner := p.Method("knx", w.client, "Send")
		n := 0
		// a validator in front: v(event) error, whose every failing return is behind a command beyond write or a
		// payload beyond 254 octets (events the property does not speak of); the wrapper gives up only on its error
		assume := map[ssa.Value]bool{}
		instrsOf(fn, func(in ssa.Instruction) {
			call, ok := in.(*ssa.Call)
			if !ok || call.Common().StaticCallee() != inner {
				if ok && call.Common().StaticCallee() != nil && call.Common().StaticCallee() != builder && p.InModule(call.Common().StaticCallee()) {
					v := call.Common().StaticCallee()
					if why := groupValidator(p, v, call, fn); why != "" {
						c.Fail("C12.out", FuncName(fn)+" extra call", p.InstrPos(in), "the wrapper calls "+FuncName(v)+": "+why)
					} else {
						c.OK("C12.out", FuncName(fn)+" validator "+FuncName(v), p.InstrPos(in), "rejects only commands beyond write and payloads beyond 254 octets, has no effect")
						for _, u := range usesOf(call) {
							if bo, ok := u.(*ssa.BinOp); ok && (bo.Op == token.NEQ || bo.Op == token.EQL) && (isNilConst(bo.X) || isNilConst(bo.Y)) {
								assume[bo] = bo.Op == token.EQL // the validator accepted
							}
						}
					}
				}
				return
			}
			n++
			arg := callArgs(call)[0]
			al := allocOf(arg)
			okT := al != nil && isNamed(deref(al.Type()), cemiPath, w.wrapT)
			okF := false
			if okT {
				for f, sts := range fieldStores(al) {
					if f.Name() == "LData" && len(sts) == 1 {
						if bc, ok := sts[0].Val.(*ssa.Call); ok && bc.Common().StaticCallee() == builder && bc.Common().Args[0] == ssa.Value(fn.Params[1]) {
							okF = true
						}
					}
				}
			}
			c.Decide(okT && okF, "C12.out", FuncName(fn)+" sends &"+w.wrapT+"{LData: build(event)}", p.InstrPos(call), "the built frame wrapped as "+w.wrapT, "the wrapper does not send the built frame as a *cemi."+w.wrapT)
		})
		min, max := pathCountAssuming(fn.Blocks[0], func(in ssa.Instruction) bool { return staticCallTo(in, inner) }, nil, assume)
		c.Decide(n == 1 && min == 1 && max == 1, "C12.out", FuncName(fn)+" exactly one Send", p.Pos(fn.Pos()), "one call of the client's Send on every path", fmt.Sprintf("%d..%d sends", min, max))
	}
	c.Floor("C12.out", "group Send wrappers", nWrap, 2)

	// ---- helper predicates
	isGA := p.Method("knx/cemi", "ControlField2", "IsGroupAddr")
	isGC := p.Method("knx/cemi", "APCI", "IsGroupCommand")
	if isGA == nil || isGC == nil {
		c.Fail("C12.in", "predicates IsGroupAddr / IsGroupCommand", "", "not found")
		return
	}
	alts := evalFunc(p, isGA, map[int]string{0: "ctrl2"})
	want := BV{{K: bsrc, Src: "ctrl2", Idx: 7}}
	got := "?"
	if len(alts) >= 1 && alts[0].V != nil {
		got = alts[0].V.String()
	}
	c.Decide(len(alts) == 1 && alts[0].V.Equal(want), "C12.in", "cemi.ControlField2.IsGroupAddr = bit 7", p.Pos(isGA.Pos()), "result is ctrl2[7]", "IsGroupAddr evaluates to ["+got+"], the address-type flag is bit 7 of control field 2")
	lo, hi, okI := acceptInterval(isGC)
	c.Decide(okI && lo == 0 && hi == 2, "C12.in", "cemi.APCI.IsGroupCommand accepts exactly 0..2", p.Pos(isGC.Pos()), "group read / response / write", fmt.Sprintf("IsGroupCommand accepts APCI values [%d,%d] (shape understood=%v); only group read(0)/response(1)/write(2) may surface", lo, hi, okI))
	for name, wantV := range map[string]int64{"GroupValueRead": 0, "GroupValueResponse": 1, "GroupValueWrite": 2} {
		cst, _ := p.Pkg("knx/cemi").Scope().Lookup(name).(*types.Const)
		v := int64(-1)
		if cst != nil {
			v, _ = constInt(ssa.NewConst(cst.Val(), cst.Type()))
		}
		c.Decide(v == wantV, "C12.in", "cemi."+name, "", fmt.Sprint(wantV), fmt.Sprintf("constant is %d", v))
	}
	for name, wantV := range map[string]int64{"GroupRead": 0, "GroupResponse": 1, "GroupWrite": 2} {
		cst, _ := p.Pkg("knx").Scope().Lookup(name).(*types.Const)
		v := int64(-1)
		if cst != nil {
			v, _ = constInt(ssa.NewConst(cst.Val(), cst.Type()))
		}
		c.Decide(v == wantV, "C12.in", "knx."+name+" equals the APCI code", "", fmt.Sprint(wantV), fmt.Sprintf("constant is %d: the command is converted by a plain type conversion", v))
	}

	// ---- inbound forwarder: func(<-chan cemi.Message, chan<- GroupEvent)
	cemiMsg := p.Named("knx/cemi", "Message")
	n, nGo := 0, 0
	cg := p.CallGraph()
	for _, fn := range p.FuncsIn("knx") {
		if fn.Parent() != nil || len(fn.Params) != 2 {
			continue
		}
		in, ok1 := fn.Params[0].Type().Underlying().(*types.Chan)
		out, ok2 := fn.Params[1].Type().Underlying().(*types.Chan)
		if !ok1 || !ok2 || !types.Identical(in.Elem(), cemiMsg) || !types.Identical(out.Elem(), gev) {
			continue
		}
		n++
		fnN := FuncName(fn)
		c.Analysed("functions", fnN)
		outb := fn.Params[1]
		var sends []*ssa.Send
		instrsOf(fn, func(x ssa.Instruction) {
			switch y := x.(type) {
			case *ssa.Send:
				if y.Chan == ssa.Value(outb) {
					sends = append(sends, y)
				}
			case *ssa.Select:
				for _, st := range y.States {
					if st.Chan == ssa.Value(outb) {
						c.Fail("C12.in", fnN+" forwards in a select", p.InstrPos(y), "events can be dropped or parked: valid indications may never surface")
					}
				}
			case *ssa.Go:
				c.Fail("C12.in", fnN+" starts goroutines", p.InstrPos(y), "forwarding from goroutines can lose events when the channel is closed and reorders them")
			}
		})
		c.Exact("C12.in", fnN+" send sites on the event channel", len(sends), 1, p.Pos(fn.Pos()))
		// the received message
		var recvMsg ssa.Value
		var rangeRecv *ssa.UnOp
		instrsOf(fn, func(x ssa.Instruction) {
			if u, ok := x.(*ssa.UnOp); ok && u.Op == token.ARROW && u.X == ssa.Value(fn.Params[0]) {
				rangeRecv = u
				for _, uu := range usesOf(u) {
					if e, ok := uu.(*ssa.Extract); ok && e.Index == 0 {
						recvMsg = e
					}
				}
				if !u.CommaOk {
					recvMsg = u
				}
			}
		})
		for _, s := range sends {
			facts := factsAt(s.Block())
			pos := p.InstrPos(s)
			var ind, app ssa.Value
			for _, f := range facts {
				if t, ta, ok := assertOK(f); ok {
					if isPtrToNamed(t, cemiPath, "LDataInd") && ta.X == recvMsg {
						for _, u := range usesOf(ta) {
							if e, ok := u.(*ssa.Extract); ok && e.Index == 0 {
								ind = e
							}
						}
					}
				}
			}
			c.Decide(ind != nil, "C12.in", fnN+" only L_Data.ind surfaces", pos, "dominated by msg.(*cemi.LDataInd) ok on the received message", "the send is not behind msg.(*cemi.LDataInd): confirmations or other message kinds surface")
			if ind == nil {
				continue
			}
			fromInd := func(v ssa.Value, f *types.Var) bool {
				v = stripAllConv(v)
				pa := valuePath(v)
				return pa.Root == ind && pa.LastField() == f
			}
			for _, f := range facts {
				if t, ta, ok := assertOK(f); ok && isPtrToNamed(t, cemiPath, "AppData") && fromInd(ta.X, fData) {
					for _, u := range usesOf(ta) {
						if e, ok := u.(*ssa.Extract); ok && e.Index == 0 {
							app = e
						}
					}
				}
			}
			c.Decide(app != nil, "C12.in", fnN+" only application data units surface", pos, "dominated by ind.Data.(*cemi.AppData) ok", "the send is not behind ind.Data.(*cemi.AppData): control units surface")
			okGA := anyFact(facts, func(f Cmp) bool {
				call, ok := boolCallFact(f, true, isGA)
				return ok && fromInd(call.Common().Args[0], fC2)
			})
			c.Decide(okGA, "C12.in", fnN+" only group-addressed frames surface", pos, "dominated by ind.Control2.IsGroupAddr() == true", "the send is not behind ind.Control2.IsGroupAddr(): individually addressed frames surface")
			okGC := app != nil && anyFact(facts, func(f Cmp) bool {
				call, ok := boolCallFact(f, true, isGC)
				if !ok {
					return false
				}
				pa := valuePath(stripAllConv(call.Common().Args[0]))
				return pa.Root == app && pa.LastField() == aCmd
			})
			c.Decide(okGC, "C12.in", fnN+" only group commands surface", pos, "dominated by app.Command.IsGroupCommand() == true", "the send is not behind app.Command.IsGroupCommand(): other application codes surface")
			// ... and nothing else decides: an indication surfaces *exactly* when the four conditions hold.  Every
			// dominating condition that looks at the received message is one of the four.
			var dependsOnMsg func(v ssa.Value, depth int) bool
			dependsOnMsg = func(v ssa.Value, depth int) bool {
				if v == nil || depth > 12 {
					return false
				}
				if v == recvMsg || v == ind || (app != nil && v == app) {
					return true
				}
				in, isIn := v.(ssa.Instruction)
				if !isIn {
					return false
				}
				if _, isPhi := v.(*ssa.Phi); isPhi && depth > 4 {
					return false
				}
				for _, op := range in.Operands(nil) {
					if *op != nil && dependsOnMsg(*op, depth+1) {
						return true
					}
				}
				return false
			}
			for _, f := range facts {
				if !dependsOnMsg(f.X, 0) && !dependsOnMsg(f.Y, 0) {
					continue
				}
				allowed := false
				if t, ta, ok := assertOK(f); ok {
					allowed = (isPtrToNamed(t, cemiPath, "LDataInd") && ta.X == recvMsg) || (isPtrToNamed(t, cemiPath, "AppData") && fromInd(ta.X, fData))
				}
				if call, ok := boolCallFact(f, true, isGA); ok && fromInd(call.Common().Args[0], fC2) {
					allowed = true
				}
				if call, ok := boolCallFact(f, true, isGC); ok && app != nil {
					pa := valuePath(stripAllConv(call.Common().Args[0]))
					allowed = allowed || (pa.Root == app && pa.LastField() == aCmd)
				}
				c.Decide(allowed, "C12.in", fnN+" nothing else decides whether an indication surfaces", pos, "a condition on the received frame in front of the send is one of: L_Data.ind, application unit, group address, group command", "a further condition on the received frame ("+cmpString(f)+") stands in front of the send: group indications that fail it never surface, although they target a group address and carry a group command")
			}
			// event content
			var ev *ssa.Alloc
			if u, ok := s.X.(*ssa.UnOp); ok && u.Op == token.MUL {
				ev, _ = u.X.(*ssa.Alloc)
			}
			if ev == nil {
				c.Fail("C12.in", fnN+" event value", pos, "the value sent is not a fresh GroupEvent literal")
			} else {
				fs := fieldStores(ev)
				fromApp := func(v ssa.Value, f *types.Var) bool {
					pa := valuePath(stripAllConv(v))
					return app != nil && pa.Root == app && pa.LastField() == f
				}
				for _, want := range []struct {
					f  *types.Var
					ok func(ssa.Value) bool
					d  string
				}{
					{eCmd, func(v ssa.Value) bool { return fromApp(v, aCmd) }, "Command = app.Command"},
					{eSrc, func(v ssa.Value) bool { return fromInd(v, fSrc) }, "Source = ind.Source"},
					{eDst, func(v ssa.Value) bool { return fromInd(v, fDst) }, "Destination = ind.Destination"},
					{eData, func(v ssa.Value) bool { return fromApp(v, aData) }, "Data = app.Data"},
				} {
					sts := fs[want.f]
					c.Decide(len(sts) == 1 && want.ok(sts[0].Val), "C12.in", fnN+" event."+want.d, pos, "field copied from the indication", "the event's "+want.f.Name()+" is not taken from the matching field of the indication")
				}
			}
			// every path through the four edges reaches the send: from the IsGroupCommand-true edge
			for _, b := range fn.Blocks {
				for _, sc := range b.Succs {
					f, ok := edgeFact(b, sc)
					if !ok {
						continue
					}
					if _, isT := boolCallFact(f, true, isGC); isT && anyFact(factsAt(b), func(g Cmp) bool { _, ok := boolCallFact(g, true, isGA); return ok }) {
						lp := innermostLoop(b)
						min, max := pathCount(sc, func(x ssa.Instruction) bool { return x == ssa.Instruction(s) }, func(bb *ssa.BasicBlock) bool { return lp != nil && bb == lp.Header })
						c.Decide(min == 1 && max == 1, "C12.in", fnN+" every matching indication surfaces once", p.InstrPos(ifOf(b)), "the accepting edge always reaches the one send", fmt.Sprintf("%d..%d sends after the accepting edge", min, max))
					}
				}
			}
		}
		// close(outbound): once, after the loop
		nClose := 0
		instrsOf(fn, func(x ssa.Instruction) {
			ci, ok := x.(ssa.CallInstruction)
			if !ok || builtinName(ci) != "close" || ci.Common().Args[0] != ssa.Value(outb) {
				return
			}
			nClose++
			after := false
			if rangeRecv != nil {
				okv := (ssa.Value)(nil)
				for _, uu := range usesOf(rangeRecv) {
					if e, ok := uu.(*ssa.Extract); ok && e.Index == 1 {
						okv = e
					}
				}
				after = okv != nil && anyFact(factsAt(x.Block()), func(f Cmp) bool { return cmpIsBool(f, false, func(v ssa.Value) bool { return v == okv }) })
				if _, isDefer := x.(*ssa.Defer); isDefer {
					after = x.Block() == fn.Blocks[0]
				}
			}
			c.Decide(after && !inAnyLoop(x.Block()), "C12.in", fnN+" closes the event channel when the client's channel closes", p.InstrPos(x), "close after the range ended (or deferred at entry)", "the event channel is closed while indications can still arrive")
		})
		c.Exact("C12.in", fnN+" close sites of the event channel", nClose, 1, p.Pos(fn.Pos()))
		// returns only after the range ended
		// constructors: go forwarder(client.Inbound(), events) with events stored as the group client's inbound
		for _, e := range cg.In[fn] {
			g, ok := e.Site.(*ssa.Go)
			if !ok {
				c.Fail("C12.in", FuncName(e.Caller)+" calls the forwarder synchronously", p.InstrPos(e.Site), "not started as a goroutine")
				continue
			}
			src := g.Common().Args[0]
			call, isCall := src.(*ssa.Call)
			okSrc := isCall && call.Common().StaticCallee() != nil && call.Common().StaticCallee().Name() == "Inbound"
			mc, _ := stripConv(g.Common().Args[1]).(*ssa.MakeChan)
			// the channel may have been stored in the struct and reloaded
			if mc == nil {
				if f := loadedField(stripConv(g.Common().Args[1])); f != nil {
					for _, st := range p.index().stores[f] {
						if m, ok := stripConv(st.Val).(*ssa.MakeChan); ok && st.Parent() == e.Caller && instrDominates(st, g) {
							mc = m
						}
					}
				}
			}
			c.Decide(okSrc && mc != nil, "C12.in", FuncName(e.Caller)+" wires client.Inbound() to the event channel", p.InstrPos(g), "go forwarder(client.Inbound(), events)", "the forwarder is not fed from the client's Inbound() into the group client's channel")
			// ... on every path on which the constructor succeeds
			nGo++
			ctor := e.Caller
			assume := map[ssa.Value]bool{}
			instrsOf(ctor, func(in ssa.Instruction) {
				bo, ok := in.(*ssa.BinOp)
				if !ok || (bo.Op != token.EQL && bo.Op != token.NEQ) {
					return
				}
				for _, pr := range [][2]ssa.Value{{bo.X, bo.Y}, {bo.Y, bo.X}} {
					if !isNilConst(pr[1]) {
						continue
					}
					if ex, ok := unspill(pr[0]).(*ssa.Extract); ok {
						if _, isCall := ex.Tuple.(*ssa.Call); isCall && types.Identical(ex.Type(), types.Universe.Lookup("error").Type()) {
							assume[bo] = bo.Op == token.EQL
						}
					}
				}
			})
			mn, mx := pathCountAssuming(ctor.Blocks[0], func(in ssa.Instruction) bool { return in == ssa.Instruction(g) }, nil, assume)
			c.Decide(len(assume) >= 1 && mn == 1 && mx == 1, "C12.in", FuncName(ctor)+" starts the forwarder whenever the client was created", p.InstrPos(g), "one go statement on every path with err == nil", fmt.Sprintf("paths on which the underlying client was created start the forwarder %d..%d times: Inbound() of the group client never yields an event", mn, mx))
		}
	}
	c.Floor("C12.in", "group forwarder functions", n, 1)
	c.Floor("C12.in", "constructors that start the forwarder (group tunnel, group router)", nGo, 2)
}

// groupValidator judges a function called by a group client's Send before the
// telegram is built.  "" when it is a pure validator of the event that fails
// only outside the domain the property speaks of.
func groupValidator(p *Program, v *ssa.Function, call *ssa.Call, wrapper *ssa.Function) string {
	if len(v.Params) != 1 || len(call.Common().Args) != 1 || unspill(call.Common().Args[0]) != ssa.Value(wrapper.Params[1]) {
		return "not a function of the event alone"
	}
	res := v.Signature.Results()
	if res.Len() != 1 || !types.Identical(res.At(0).Type(), types.Universe.Lookup("error").Type()) {
		return "does not return just an error"
	}
	ev := v.Params[0]
	bad := ""
	instrsOf(v, func(in ssa.Instruction) {
		switch x := in.(type) {
		case *ssa.Store:
			root := x.Addr
			for i := 0; i < 6; i++ {
				switch y := root.(type) {
				case *ssa.IndexAddr:
					root = y.X
					continue
				case *ssa.FieldAddr:
					root = y.X
					continue
				}
				break
			}
			if al, isAl := root.(*ssa.Alloc); !isAl || al.Parent() != v {
				bad = "stores outside its locals at " + p.InstrPos(x)
			}
		case *ssa.Go, *ssa.Defer, *ssa.Send, *ssa.MapUpdate, *ssa.Select:
			bad = "has an effect at " + p.InstrPos(in)
		case *ssa.Call:
			if builtinName(x) != "" {
				return
			}
			o := calleeObj(x)
			if !(funcIs(o, "fmt", "", "Errorf") || funcIs(o, "errors", "", "New") || funcIs(o, "fmt", "", "Sprintf")) {
				bad = "calls " + describe(x.Common().Value) + " at " + p.InstrPos(x)
			}
		}
	})
	if bad != "" {
		return bad
	}
	isField := func(val ssa.Value, name string) bool {
		val = unspill(val)
		for i := 0; i < 4; i++ {
			switch y := val.(type) {
			case *ssa.Convert:
				val = unspill(y.X)
				continue
			case *ssa.ChangeType:
				val = unspill(y.X)
				continue
			}
			break
		}
		if f := loadedField(val); f != nil && f.Name() == name {
			return true
		}
		if fl, ok := val.(*ssa.Field); ok && unspill(fl.X) == ssa.Value(ev) {
			return structField(fl.X.Type(), fl.Field).Name() == name
		}
		return false
	}
	isLenData := func(val ssa.Value) bool {
		cl, ok := unspill(val).(*ssa.Call)
		return ok && builtinName(cl) == "len" && isField(cl.Common().Args[0], "Data")
	}
	for _, r := range returnsOf(v) {
		if len(r.Results) != 1 || isNilConst(r.Results[0]) {
			continue
		}
		okR := anyFact(factsAt(r.Block()), func(f Cmp) bool {
			k, isK := constInt(f.Y)
			if !isK {
				return false
			}
			switch {
			case isField(f.X, "Command"):
				return (f.Op == token.GTR && k >= 2) || (f.Op == token.GEQ && k >= 3)
			case isLenData(f.X):
				return (f.Op == token.GTR && k >= 254) || (f.Op == token.GEQ && k >= 255)
			}
			return false
		})
		if !okR {
			return "a failing return at " + p.InstrPos(r) + " is not behind a command beyond write or a payload beyond 254 octets: a read, response or write with a payload the property covers is refused"
		}
	}
	return ""
}

func cmpString(f Cmp) string {
	return describe(f.X) + " " + f.Op.String() + " " + describe(f.Y)
}
